/-
  C19 — the discovery document is truthful about the provider in every configuration.

  The monitor: the property as a decidable predicate over a provider CONFIGURATION (what the integrator
  handed to the library) and what was OBSERVED from outside (the discovery document, the HTTP status of
  a request to each advertised address, the token endpoint's answer per grant type, the `iss` of an issued
  token, a PKCE round trip per advertised method, an authorization request carrying a request object).
  It never says how the library computes the document.

  Reading (DESIGN §4.21): an endpoint configured with an explicit absolute DiscURL is truthful when the
  document shows exactly that DiscURL; `implicit` is advertised but is not a token-endpoint grant; a disabled
  (nil) endpoint must not be advertised.
-/
import OidcModel.Model.Discovery

namespace C19
open Disco

/-- the nine endpoint members of the discovery document -/
inductive Field | authorization | token | introspection | userinfo | revocation | endSession | jwks | deviceAuthorization | checkSession
  deriving DecidableEq, Repr, Inhabited

def Field.all : List Field :=
  [.authorization, .token, .introspection, .userinfo, .revocation, .endSession, .jwks, .deviceAuthorization, .checkSession]

def Field.name : Field → String
  | .authorization => "authorization_endpoint" | .token => "token_endpoint" | .introspection => "introspection_endpoint"
  | .userinfo => "userinfo_endpoint" | .revocation => "revocation_endpoint" | .endSession => "end_session_endpoint"
  | .jwks => "jwks_uri" | .deviceAuthorization => "device_authorization_endpoint" | .checkSession => "check_session_iframe"

/-- the endpoint the integrator configured for a document member -/
def Field.configured (eps : Endpoints) : Field → Endpoint
  | .authorization => eps.Authorization | .token => eps.Token | .introspection => eps.Introspection
  | .userinfo => eps.Userinfo | .revocation => eps.Revocation | .endSession => eps.EndSession
  | .jwks => eps.JwksURI | .deviceAuthorization => eps.DeviceAuthorization | .checkSession => eps.CheckSessionIframe

/-- what the document shows for a member -/
def Field.advertised (d : DiscoveryConfiguration) : Field → String
  | .authorization => d.AuthorizationEndpoint | .token => d.TokenEndpoint | .introspection => d.IntrospectionEndpoint
  | .userinfo => d.UserinfoEndpoint | .revocation => d.RevocationEndpoint | .endSession => d.EndSessionEndpoint
  | .jwks => d.JwksURI | .deviceAuthorization => d.DeviceAuthorizationEndpoint | .checkSession => d.CheckSessionIframe

/-- a provider configuration: router, the effective endpoint set (the Provider's own on the first router, the one
    handed to `NewLegacyServer` on the second), the boolean options and the optional storage capabilities -/
structure Config where
  router : Router := .provider
  endpoints : Endpoints := {}
  flags : OpConfig := {}
  caps : OpStorage := {}
  insecure : Bool := false
  deriving Repr, Inhabited

/-- the token-endpoint grant types (everything the library can advertise except `implicit`) -/
def tokenGrants : List String :=
  [Const.GrantTypeCode, Const.GrantTypeRefreshToken, Const.GrantTypeClientCredentials, Const.GrantTypeBearer,
   Const.GrantTypeTokenExchange, Const.GrantTypeDeviceCode]

def unsupportedGrantType : String := "unsupported_grant_type"

/-- what was observed from outside -/
structure Obs where
  status : Nat := 200                          -- of GET /.well-known/openid-configuration
  doc : DiscoveryConfiguration := {}
  /-- per advertised, issuer-relative address: HTTP status of a request to that path (absent = not probed) -/
  probe : List (Field × Nat) := []
  /-- token endpoint: OAuth error code per probed grant type ("" = success) by a client registered for every grant; `none` = there is no token endpoint -/
  grantAnswer : Option (List (String × String)) := none
  /-- `iss` of an ID token issued through the authorization-code flow (absent = flow not possible in this configuration) -/
  tokenIssuer : Option String := none
  /-- per advertised PKCE method: "ok" iff a code bound to a challenge of that method is redeemed with the right verifier and refused
      with a wrong one; "na" = the configuration has no authorization-code flow at all (authorization or token endpoint disabled) -/
  pkce : List (String × String) := []
  /-- authorization request with a signed request object: "honoured" iff it was processed and its values were taken over;
      "na" = there is no authorization endpoint -/
  requestObject : String := ""
  deriving Repr, Inhabited

/-- the issuer-relative address of a path-only endpoint -/
def issuerRelative (issuer : String) (e : Endpoint) : String :=
  Go.trimSuffix issuer "/" ++ ("/" ++ Go.trimPrefix e.path "/")

def served (status : Nat) : Bool := status != 404 && status != 405

/-- one endpoint member is truthful: whatever is advertised is the address of that endpoint -/
def fieldOK (c : Config) (o : Obs) (f : Field) : Bool :=
  let e := f.configured c.endpoints
  let adv := f.advertised o.doc
  if adv == "" then true                                     -- nothing advertised, nothing claimed
  else if e.isNil then false                                 -- disabled endpoint advertised
  else if e.url != "" then adv == e.url                      -- explicit absolute DiscURL: shown verbatim
  else adv == issuerRelative o.doc.Issuer e &&               -- issuer-relative address …
    (match o.probe.find? (·.1 == f) with                     -- … of a route the handler serves
     | some (_, st) => served st
     | none => false)

/-- advertised token-endpoint grants = grants the token endpoint does not answer with unsupported_grant_type;
    nothing else is advertised except `implicit`; an unknown grant type is answered with unsupported_grant_type -/
def grantsAgree (advertised : List String) (ans : List (String × String)) : Bool :=
  tokenGrants.all (fun g =>
    match ans.find? (·.1 == g) with
    | some (_, code) => advertised.contains g == (code != unsupportedGrantType)
    | none => false) &&
  advertised.all (fun g => tokenGrants.contains g || g == Const.GrantTypeImplicit) &&
  ans.all (fun (g, code) => tokenGrants.contains g || g == "" || code == unsupportedGrantType)

def grantsOK (o : Obs) : Bool :=
  match o.grantAnswer with
  | none => true
  | some ans => grantsAgree o.doc.GrantTypesSupported ans

def pkceOK (o : Obs) : Bool :=
  o.doc.CodeChallengeMethodsSupported.all (fun m =>
    match o.pkce.find? (·.1 == m) with
    | some (_, r) => r == "ok" || r == "na"
    | none => false)

/-- the monitor for one configuration: `none` = satisfied, `some clause` = violated -/
def monitor (c : Config) (o : Obs) : Option String :=
  if o.status != 200 then some "discovery-unavailable"
  else if (match o.tokenIssuer with | some i => o.doc.Issuer != i | none => false) then some "issuer-differs-from-token-issuer"
  else match Field.all.find? (fun f => !fieldOK c o f) with
  | some f => some ("endpoint:" ++ f.name)
  | none =>
    if !grantsOK o then some "grant-types"
    else if !pkceOK o then some "pkce-method-not-honoured"
    else if o.doc.RequestParameterSupported && !(o.requestObject == "honoured" || o.requestObject == "na") then some "request-object-not-honoured"
    else none

/-! ### one request after another: the document is the document of THIS request

A provider whose issuer is derived from the request (`op.IssuerFromHost`, `op.IssuerFromForwardedOrHost`) serves many hosts. The
statement's "the discovery document's issuer equals the issuer put into issued tokens" and "every advertised endpoint URL is the
issuer-relative address …" are claims about every single request, whatever the provider was asked before: the document handed to a
host names the issuer of THAT host, which is the `iss` of the tokens issued through that host right afterwards. -/

/-- one discovery request as its sender knows it -/
structure Visit where
  strategy : IssuerStrategy := .static ""
  /-- the request's Host line -/
  host : String := ""
  /-- the host named by the forwarding header(s) the provider was configured to trust: the first such header, in the configured
      order, that is well-formed and names a host (`none`: there is none, the Host line counts) -/
  fwdHost : Option String := none
  deriving Repr, Inhabited

/-- the issuer path as it is appended to the host: empty, or with exactly the leading slash it needs -/
def issuerPathSuffix (path : String) : String :=
  if path == "" then "" else if Go.hasPrefix path "/" then path else "/" ++ path

/-- the issuer a request is entitled to, by the documented meaning of the three strategies: the configured one; scheme://Host/path;
    scheme://(forwarded host, else Host)/path — https unless the provider was built with the insecure opt-in -/
def issuerOfRequest (insecure : Bool) (v : Visit) : String :=
  let scheme := if insecure then "http" else "https"
  match v.strategy with
  | .static iss => iss
  | .fromHost path => scheme ++ "://" ++ v.host ++ issuerPathSuffix path
  | .fromForwarded path => scheme ++ "://" ++ v.fwdHost.getD v.host ++ issuerPathSuffix path

/-- what was observed for one visit: the document served to this request and the `iss` of every token issued through the same host
    immediately afterwards (kind ↦ iss: `id` id_token and `at` JWT access token of an authorization-code flow, `cc` JWT access token
    of the client_credentials grant) -/
structure VisitObs where
  status : Nat := 200
  doc : DiscoveryConfiguration := {}
  tokenIssuers : List (String × String) := []
  deriving Repr, Inhabited

/-- an endpoint member names the address of that endpoint (as `fieldOK`, without the route probe) -/
def fieldAddressOK (c : Config) (d : DiscoveryConfiguration) (f : Field) : Bool :=
  let e := f.configured c.endpoints
  let adv := f.advertised d
  if adv == "" then true
  else if e.isNil then false
  else if e.url != "" then adv == e.url
  else adv == issuerRelative d.Issuer e

/-- the monitor for one visit of a sequence: `none` = satisfied -/
def monitorVisit (c : Config) (v : Visit) (o : VisitObs) : Option String :=
  if o.status != 200 then some "discovery-unavailable"
  else if o.doc.Issuer != issuerOfRequest c.insecure v then some "document-issuer-not-of-this-request"
  else match o.tokenIssuers.find? (fun ki => ki.2 != o.doc.Issuer) with
  | some (k, _) => some ("issuer-differs-from-token-issuer:" ++ k)
  | none =>
    match Field.all.find? (fun f => !fieldAddressOK c o.doc f) with
    | some f => some ("endpoint:" ++ f.name)
    | none => none

/-- a whole sequence of visits to one provider: the first visit that fails, with its position -/
def monitorSequence (c : Config) : List (Visit × VisitObs) → Option (Nat × String)
  | [] => none
  | (v, o) :: rest =>
    match monitorVisit c v o with
    | some clause => some (0, clause)
    | none => (monitorSequence c rest).map (fun (k, clause) => (k + 1, clause))

/-! ### issuer validation at provider construction (the DiscURL parser is an oracle) -/

/-- the statement's acceptable static issuers, over what `net/url.Parse` says about the string -/
def issuerAcceptable (parse : String → Go.R DiscURL) (issuer : String) (insecure : Bool) : Bool :=
  issuer != "" &&
  (match parse issuer with
   | .error _ => false
   | .ok u => u.Host != "" && u.Fragment == "" && u.Query.isEmpty && (u.Scheme == "https" || (insecure && u.Scheme == "http")))

/-- construction with a static issuer: accepted only if acceptable -/
def monitorIssuer (parse : String → Go.R DiscURL) (issuer : String) (insecure : Bool) (accepted : Bool) : Option String :=
  if accepted && !issuerAcceptable parse issuer insecure then some "bad-issuer-accepted" else none

/-- construction with an issuer derived from the request host: a path with query or fragment is refused; the
    produced issuer uses http only under the insecure opt-in -/
def monitorDynamicIssuer (parse : String → Go.R DiscURL) (path : String) (insecure : Bool) (accepted : Bool) (produced : Option String) : Option String :=
  if accepted && (match parse path with | .error _ => true | .ok u => u.Fragment != "" || !u.Query.isEmpty) then some "bad-issuer-path-accepted"
  else match produced with
  | some iss => if Go.hasPrefix iss "https://" || (insecure && Go.hasPrefix iss "http://") then none else some "insecure-issuer-produced"
  | none => none

/-! ### the RP's discovery client -/

/-- `client.Discover(issuer)` returned a document only if that document's issuer is the one asked for -/
def monitorDiscover (asked : String) (servedIssuer : String) (returned : Option String) : Option String :=
  match returned with
  | some iss => if iss == asked && servedIssuer == asked then none else some "foreign-issuer-accepted"
  | none => none

end C19
