/-
  C10 — Storage failures fail closed: an error response, no code and no token.
  Monitor over the response to ONE request during which one storage call was made to fail.
-/
namespace C10

structure Obs where
  flow : String := ""
  status : Nat := 0
  panicked : Bool := false
  locationError : Bool := false       -- redirect whose target carries an `error` parameter
  locationRegistered : Bool := true   -- the redirect target is the validated (registered) redirect URI
  hasRedirect : Bool := false
  hasCode : Bool := false             -- an authorization code anywhere in body / Location
  hasToken : Bool := false            -- access / refresh / ID token anywhere
  hasClaims : Bool := false           -- user claims in the body
  active : Bool := false              -- introspection said active:true
  deriving Repr, Inhabited

/-- was a fault injected into a call this request really made (k within the journal) -/
def judge (faultHit : Bool) (o : Obs) : Option String :=
  if o.panicked then some "panic"
  else if !faultHit then none
  else if o.hasCode then some "code-despite-storage-failure"
  else if o.hasToken then some "token-despite-storage-failure"
  else if o.hasClaims then some "claims-despite-storage-failure"
  else if o.active then some "active-despite-storage-failure"
  else if o.flow == "introspect" then none                         -- `200 {"active":false}` is the required answer
  else if o.hasRedirect then
    (if !o.locationError then some "redirect-without-error"
     else if !o.locationRegistered then some "error-redirect-to-unvalidated-uri" else none)
  else if o.status < 400 then some "success-status-despite-storage-failure"
  else none

end C10
