/-
  C10 — Storage failures fail closed: an error response, no code and no token.
  Monitor over the response to ONE request during which one storage call was made to fail.
-/
namespace C10

structure Obs where
  flow : String := ""
  status : Nat := 0
  panicked : Bool := false
  locationError : Bool := false       -- redirect whose target carries an `error` parameter
  locationRegistered : Bool := true   -- the redirect target is the validated (registered) redirect URI
  hasRedirect : Bool := false
  hasCode : Bool := false             -- an authorization code anywhere in body / Location
  hasToken : Bool := false            -- access / refresh / ID token anywhere
  hasClaims : Bool := false           -- user claims in the body
  active : Bool := false              -- introspection said active:true
  deriving Repr, Inhabited

/-- Does the injected error count as "a call into the storage failed"?  Every error does - except the two answers the storage
    interface (pkg/op/storage.go) documents as part of the protocol: `ErrDuplicateUserCode` from StoreDeviceAuthorization
    ("try again with a new code") is a failure only when NO attempt of the request succeeded, and `ErrInvalidRefreshToken` from
    GetRefreshTokenInfo ("this is not a refresh token") is not a failure.  When EVERY storage call of the request failed
    (`allFailed`) nothing was read or stored, whatever the error values were: that always counts.
    method: the method the fault schedule names; kind: the injected error value (`wrap:…`: wrapped with %w);
    failedCalls: calls that really failed; okCallsOfMethod: calls of that method that succeeded in the same request. -/
def faultCounts (method kind : String) (failedCalls okCallsOfMethod : Nat) (allFailed : Bool) : Bool :=
  if failedCalls == 0 then false
  else if allFailed then true
  else if method == "StoreDeviceAuthorization" && (kind == "ErrDuplicateUserCode" || kind == "wrap:ErrDuplicateUserCode") then
    okCallsOfMethod == 0
  else if method == "GetRefreshTokenInfo" && (kind == "ErrInvalidRefreshToken" || kind == "wrap:ErrInvalidRefreshToken") then false
  else true

/-- was a fault injected into a call this request really made (k within the journal) -/
def judge (faultHit : Bool) (o : Obs) : Option String :=
  if o.panicked then some "panic"
  else if !faultHit then none
  else if o.hasCode then some "code-despite-storage-failure"
  else if o.hasToken then some "token-despite-storage-failure"
  else if o.hasClaims then some "claims-despite-storage-failure"
  else if o.active then some "active-despite-storage-failure"
  else if o.flow == "introspect" then none                         -- `200 {"active":false}` is the required answer
  else if o.hasRedirect then
    (if !o.locationError then some "redirect-without-error"
     else if !o.locationRegistered then some "error-redirect-to-unvalidated-uri" else none)
  else if o.status < 400 then some "success-status-despite-storage-failure"
  else none

end C10
