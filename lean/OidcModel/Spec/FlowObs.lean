/-
  The observer of the C04 / C07 reference monitors: what an onlooker of the provider's front door sees
  (EVENTS: an authorization request was accepted, a user logged in, a code was handed out, a code or a
  refresh token was presented at the token endpoint and answered), the state it keeps (the two monitor
  states and the accepted requests) and how every event is judged.  Nothing here mentions how the
  provider computes its answers; the driver parses observed lines into events (Driver/FlowMon.lean),
  the proofs feed it the model's own steps (Proofs/C04History.lean).
-/
import OidcModel.Spec.C07

namespace FlowObs

inductive Event
  /-- /authorize accepted a request and stored it as `a` (id, client, redirect URI, scopes, nonce, challenge) -/
  | accepted (a : AuthReq)
  /-- the login UI completed request `id` for user `subject` -/
  | login (id subject : String) (authTime : Int)
  /-- /authorize/callback handed out `code` for request `id` -/
  | code (id code : String)
  /-- a code was presented at the token endpoint; `obs = some tokens` = 200 with these (decoded) tokens;
      `minted` = the refresh token the storage created while serving the request (delivered with the
      response on success; left behind in the storage when the request ended in an error) -/
  | exchange (p : C04.Presented) (obs : Option C04.Tokens) (minted : Option C07.RT)
  /-- a refresh token `rt` was presented with the scope parameter `requested`; `obs = some r` = 200,
      otherwise the OAuth error `err`; `created` = the storage was asked to create tokens -/
  | refresh (p : C04.Presented) (rt : String) (requested : List String) (obs : Option C07.Result) (err : String) (created : Bool)
  deriving Repr, Inhabited

/-- observer state (built from observations only) -/
structure ObsState where
  m04 : C04.MonState := {}
  m07 : C07.MonState := {}
  reqs : List AuthReq := []         -- the authorization requests the provider accepted, as the observer knows them now
  deriving Repr, Inhabited

/-- one event at instant `now`: new observer state, C04 verdict, C07 verdict (`none` = nothing to object) -/
def observe (now : Int) (s : ObsState) : Event → ObsState × Option String × Option String
  | .accepted a => ({ s with reqs := s.reqs ++ [a] }, none, none)
  | .login id subject authTime =>
    ({ s with
        reqs := s.reqs.map fun a => if a.id == id then { a with done := true, subject := subject, authTime := authTime } else a,
        m04 := C04.onLogin s.m04 id subject authTime }, none, none)
  | .code id code =>
    match s.reqs.find? (·.id == id) with
    | some a => ({ s with m04 := C04.onCallback s.m04 code a }, if a.done then none else some "code-for-uncompleted-request", none)
    | none => (s, some "code-for-unknown-request", none)
  | .exchange p obs minted =>
    ({ s with m04 := C04.onExchange s.m04 p obs,
              m07 := match minted with | some t => C07.onIssue s.m07 t | none => s.m07 },
     C04.judge s.m04 now p obs, none)
  | .refresh p rt requested obs err created =>
    ({ s with m07 := C07.onRefresh s.m07 rt obs }, none, C07.judge s.m07 now p rt requested obs err created)

end FlowObs
