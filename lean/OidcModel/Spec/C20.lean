/-
  C20 — shared instances are race-free and isolated: no hidden writes to global state.

  The monitor judges what was OBSERVED around one program step (a construction, an API call, or a
  concurrent mix of API calls) on the real library.  It knows nothing about write sites or aliasing:
  only which package-level defaults / caller-supplied objects / other instances differ afterwards
  (deep snapshot comparison, field granularity), whether a behavioural probe of a shared object
  (does the HTTP client still follow redirects?) answers differently, whether an EARLIER instance answers its
  own clients differently (discovery issuer and endpoints, authorization endpoint, keys endpoint), and how many
  data races the race detector reported.
-/
namespace C20

structure Obs where
  /-- package-level variables (name.field) whose value differs after the step -/
  globalsChanged : List String
  /-- caller-supplied objects (GoType.field) whose value differs after the step -/
  suppliedChanged : List String
  /-- probes of later behaviour that answer differently after the step (e.g. `redirect:http.DefaultHTTPClient`) -/
  behaviourChanged : List String
  /-- other instances (not the one constructed / used in this step) whose observable configuration differs -/
  othersChanged : List String
  /-- instances that existed BEFORE this step and are not the one it acts on, whose BEHAVIOUR towards their own clients
      differs afterwards: `#id:type.probe` with probe ∈ discovery (issuer + every endpoint URL, for a request with Host and
      forwarding headers) | authorize | keys | authurl | endpoints -/
  instanceBehaviourChanged : List String := []
  /-- data races reported for the step (concurrent mixes under the race detector) -/
  races : Nat
  panicked : Bool
  deriving Repr

/-- `none` = the property holds for this observation; `some clause` = violated -/
def monitor (o : Obs) : Option String :=
  if o.panicked then some "panic"
  else if !o.globalsChanged.isEmpty then some "package-default-changed"
  else if !o.suppliedChanged.isEmpty then some "supplied-object-changed"
  else if !o.behaviourChanged.isEmpty then some "later-behaviour-changed"
  else if !o.instanceBehaviourChanged.isEmpty then some "instance-behaviour-changed"
  else if !o.othersChanged.isEmpty then some "other-instance-changed"
  else if o.races > 0 then some "data-race"
  else none

end C20
