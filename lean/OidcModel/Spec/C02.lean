/-
  C02 — Only payloads signed by a trusted key with an allowed algorithm are believed.
  The property as an executable predicate over (allow-list, key set, serialized token, OBSERVED
  result).  Symbolic signatures: a signature term records which key pair made it, with which
  algorithm, over which payload bytes and protected header.
-/
import OidcModel.Model.KeySet

namespace C02
open Hand

/-- the allow-list in force (an empty configured list means the library default) -/
def allowed (algs : List String) : List String := if algs.isEmpty then Gen.defaultSigAlgs else algs

/-- the signature `s` of `j` is a genuine signature by key pair `k`, over exactly `j`'s payload and the
    protected header the token shows, made with the algorithm the token's header names, and `k`'s type fits it -/
def genuine (j : JWS) (s : JSig) (k : JWK) : Bool :=
  s.signer == some k.keyNo && s.signedBytes == j.payload.bytes && s.signedHdr == s.Protected
    && s.signedAlg == s.Header.Algorithm && algFits k.kty s.Header.Algorithm

/-- keys of a published set that could match a token (use and type fit) -/
def usable (ks : KeySet) (alg : String) : List JWK :=
  ks.keys.filter fun k => (k.Use == "sig" || k.Use == "") && algFits k.kty alg

/-- the keys that remain candidates when the key id does not decide: the token names none, or the key has none -/
def looseCandidates (ks : KeySet) (s : JSig) : List JWK :=
  (usable ks s.Header.Algorithm).filter fun k => k.KeyID == "" || s.Header.KeyID == ""

/-- "key ID consistent with the token header": the header (as go-jose merges protected and unprotected part)
    names exactly this key's id; or one of the two has no id and `k` is the ONLY candidate left -/
def kidConsistent (ks : KeySet) (s : JSig) (k : JWK) : Bool :=
  (k.KeyID == s.Header.KeyID && s.Header.KeyID != "") ||
    ((k.KeyID == "" || s.Header.KeyID == "") && looseCandidates ks s == [k])

/-- selection rules for a key taken from a PUBLISHED key set: declared use permits signatures and
    the key id is consistent with the token header -/
def publishedOK (ks : KeySet) (s : JSig) (k : JWK) : Bool :=
  (k.Use == "sig" || k.Use == "") && kidConsistent ks s k

/-- the selection rule of the key-set kind -/
def selectedOK (ks : KeySet) (s : JSig) (k : JWK) : Bool :=
  match ks.kind with
  | .published => publishedOK ks s k
  | .jwtProfile => k.KeyID == s.Header.KeyID     -- the storage was asked for exactly this key id
  | .static => true
  | .nilSet => false

/-- a key of the set that justifies believing the token -/
def justifies (ks : KeySet) (j : JWS) (s : JSig) (k : JWK) : Bool :=
  ks.keys.contains k && genuine j s k && selectedOK ks s k

/-- Clauses an ACCEPTED token must satisfy; returns the name of the first one that fails. -/
def acceptedOK (algs : List String) (ks : KeySet) (t : Token) (returned : Claims) : Option String :=
  if t.segs != 3 then some "segments" else
  match t.jws with
  | none => some "not-a-jws"
  | some j =>
    match j.Signatures with
    | [s] =>
      if !(allowed algs).contains s.Header.Algorithm then some "alg-not-allowed" else
      if !(ks.keys.any fun k => genuine j s k) then some "no-trusted-key" else
      if !(ks.keys.any fun k => justifies ks j s k) then some "key-not-consistent-with-header" else
      match t.middle with
      | none => some "payload-undecodable"
      | some p =>
        if p.bytes != j.payload.bytes then some "payload-not-the-signed-one" else
        match p.claims with
        | none => some "payload-not-json"
        | some c => if { returned with sigAlg := "" } != { c with sigAlg := "" } then some "claims-changed" else none
    | _ => some "signature-count"

/-- ambiguity: a published set, a token without key id, and several keys that could match -/
def ambiguous (ks : KeySet) (t : Token) : Bool :=
  match ks.kind, t.jws with
  | .published, some j =>
    match j.Signatures with
    | [s] => s.Header.KeyID == "" && (usable ks s.Header.Algorithm).length ≥ 2
    | _ => false
  | _, _ => false

/-- The monitor: `obs = some claims` means the verifier accepted and returned these claims. -/
def monitor (algs : List String) (ks : KeySet) (t : Token) (obs : Option Claims) : Option String :=
  match obs with
  | some c =>
    match acceptedOK algs ks t c with
    | some cl => some ("accepted:" ++ cl)
    | none => if ambiguous ks t then some "accepted:ambiguous-key" else none
  | none => none

/-- expected result of `oidc.FindMatchingKey` as the statement describes it: an exact (kid, use,
    type) match wins, in list order; otherwise the unique kid-less/any candidate; ambiguity and
    absence are reported as such. -/
def findSpec (keyID use alg : String) (keys : List JWK) : Go.R JWK :=
  let fit := keys.filter fun k => (k.Use == use || k.Use == "") && algFits k.kty alg
  match fit.find? (fun k => k.KeyID == keyID && keyID != "") with
  | some k => .ok k
  | none =>
    match fit.filter (fun k => k.KeyID == "" || keyID == "") with
    | [k] => .ok k
    | [] => .error "ErrKeyNone"
    | _ => .error "ErrKeyMultiple"

end C02
