/-
  C02 — Only payloads signed by a trusted key with an allowed algorithm are believed.
  The property as an executable predicate over (allow-list, key set, serialized token, OBSERVED
  result).  Symbolic signatures: a signature term records which key pair made it, with which
  algorithm, over which payload bytes and protected header.
-/
import OidcModel.Model.KeySet

namespace C02
open Hand

/-- the allow-list in force (an empty configured list means the library default) -/
def allowed (algs : List String) : List String := if algs.isEmpty then Gen.defaultSigAlgs else algs

/-- the signature `s` of `j` is a genuine signature by key pair `k`, over exactly `j`'s payload and
    the header the token shows, and `k`'s type fits the algorithm -/
def genuine (j : JWS) (s : JSig) (k : JWK) : Bool :=
  s.signer == some k.keyNo && s.signedBytes == j.payload.bytes && s.signedHdr == s.Header
    && s.signedAlg == s.Header.Algorithm && algFits k.kty s.Header.Algorithm

/-- selection rules for a key taken from a PUBLISHED key set: declared use permits signatures and
    the key id is consistent with the token header -/
def publishedOK (s : JSig) (k : JWK) : Bool :=
  (k.Use == "sig" || k.Use == "") && (k.KeyID == s.Header.KeyID || k.KeyID == "" || s.Header.KeyID == "")

/-- a key of the set that justifies believing the token -/
def justifies (ks : KeySet) (j : JWS) (s : JSig) (k : JWK) : Bool :=
  ks.keys.contains k && genuine j s k &&
    (match ks.kind with
     | .published => publishedOK s k
     | .jwtProfile => k.KeyID == s.Header.KeyID     -- the storage was asked for exactly this key id
     | .static => true
     | .nilSet => false)

/-- keys of a published set that could match a token (use and type fit) -/
def usable (ks : KeySet) (alg : String) : List JWK :=
  ks.keys.filter fun k => (k.Use == "sig" || k.Use == "") && algFits k.kty alg

/-- Clauses an ACCEPTED token must satisfy; returns the name of the first one that fails. -/
def acceptedOK (algs : List String) (ks : KeySet) (t : Token) (returned : Claims) : Option String :=
  if t.segs != 3 then some "segments" else
  match t.jws with
  | none => some "not-a-jws"
  | some j =>
    match j.Signatures with
    | [s] =>
      if !(allowed algs).contains s.Header.Algorithm then some "alg-not-allowed" else
      if !(ks.keys.any fun k => justifies ks j s k) then some "no-trusted-key" else
      match t.middle with
      | none => some "payload-undecodable"
      | some p =>
        if p.bytes != j.payload.bytes then some "payload-not-the-signed-one" else
        match p.claims with
        | none => some "payload-not-json"
        | some c => if { returned with sigAlg := "" } != { c with sigAlg := "" } then some "claims-changed" else none
    | _ => some "signature-count"

/-- ambiguity: a published set, a token without key id, and several keys that could match -/
def ambiguous (ks : KeySet) (t : Token) : Bool :=
  match ks.kind, t.jws with
  | .published, some j =>
    match j.Signatures with
    | [s] => s.Header.KeyID == "" && (usable ks s.Header.Algorithm).length ≥ 2
    | _ => false
  | _, _ => false

/-- The monitor: `obs = some claims` means the verifier accepted and returned these claims. -/
def monitor (algs : List String) (ks : KeySet) (t : Token) (obs : Option Claims) : Option String :=
  match obs with
  | some c =>
    match acceptedOK algs ks t c with
    | some cl => some ("accepted:" ++ cl)
    | none => if ambiguous ks t then some "accepted:ambiguous-key" else none
  | none => none

/-- expected result of `oidc.FindMatchingKey` as the statement describes it: an exact (kid, use,
    type) match wins, in list order; otherwise the unique kid-less/any candidate; ambiguity and
    absence are reported as such. -/
def findSpec (keyID use alg : String) (keys : List JWK) : Go.R JWK :=
  let fit := keys.filter fun k => (k.Use == use || k.Use == "") && algFits k.kty alg
  match fit.find? (fun k => k.KeyID == keyID && keyID != "") with
  | some k => .ok k
  | none =>
    match fit.filter (fun k => k.KeyID == "" || keyID == "") with
    | [k] => .ok k
    | [] => .error "ErrKeyNone"
    | _ => .error "ErrKeyMultiple"

end C02
