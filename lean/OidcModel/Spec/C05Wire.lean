/-
  C05 — the credentials of a request as an ONLOOKER reads them off the wire (monitor side; core Lean, nothing generated).

  `Spec/C05.lean` decides "authenticated in the way it is registered" from `Creds`.  Up to round 3 the secret-type credential was
  taken from what net/http (`r.BasicAuth()`) and `url.QueryUnescape` reported for the request (oracle answers in the line).  Here
  it is computed from the BYTES of the `Authorization` header itself:

    Authorization: <scheme> SP <base64(user ":" password)>       RFC 7617; scheme compared case-insensitively, exactly one space,
                                                                  standard alphabet with padding, split at the FIRST colon
    user, password: application/x-www-form-urlencoded            RFC 6749 §2.3.1 (`+` = space, `%XX`; a stray `%` is malformed)

  precedence: a header that parses as Basic counts, and then `client_id` / `client_secret` of the form are NOT the secret-type
  credential; a header that does not parse as Basic (other scheme, two spaces, bad base64, no colon) is no credential at all and
  the form's `client_id` / `client_secret` count; a Basic header whose user name or password is malformed (`%zz`), or whose user name
  is no text (bytes that are not UTF-8 name no registration), is a credential that fits nobody; a password that is no text equals
  no registered secret.  Of a repeated form parameter the
  last value counts.
-/
import OidcModel.Spec.C05

namespace C05.Wire

def b64Val (c : Char) : Option Nat :=
  if 'A' ≤ c ∧ c ≤ 'Z' then some (c.toNat - 65)
  else if 'a' ≤ c ∧ c ≤ 'z' then some (c.toNat - 97 + 26)
  else if '0' ≤ c ∧ c ≤ '9' then some (c.toNat - 48 + 52)
  else if c = '+' then some 62
  else if c = '/' then some 63
  else none

def byte (n : Nat) : UInt8 := UInt8.ofNat (n % 256)

/-- base64, standard alphabet, padded (Go: `base64.StdEncoding.DecodeString`, which is not strict about the unused bits of the
    last group; it also skips CR / LF, which no case of the stream sends) -/
def b64Decode : List Char → Option (List UInt8)
  | [] => some []
  | [a, b, '=', '='] =>
    match b64Val a, b64Val b with
    | some x, some y => some [byte (x * 4 + y / 16)]
    | _, _ => none
  | [a, b, c, '='] =>
    match b64Val a, b64Val b, b64Val c with
    | some x, some y, some z => some [byte (x * 4 + y / 16), byte (y % 16 * 16 + z / 4)]
    | _, _, _ => none
  | a :: b :: c :: d :: rest =>
    match b64Val a, b64Val b, b64Val c, b64Val d, b64Decode rest with
    | some x, some y, some z, some w, some tl => some (byte (x * 4 + y / 16) :: byte (y % 16 * 16 + z / 4) :: byte (z % 4 * 64 + w) :: tl)
    | _, _, _, _, _ => none
  | _ => none

def asciiLower (c : Char) : Char := if 'A' ≤ c ∧ c ≤ 'Z' then Char.ofNat (c.toNat + 32) else c

/-- split at the first colon -/
def cutColon : List UInt8 → Option (List UInt8 × List UInt8)
  | [] => none
  | b :: rest => if b = 58 then some ([], rest) else (cutColon rest).map fun (u, p) => (b :: u, p)

/-- user name and password of an `Authorization` header value, as bytes; `none` = not a Basic credential -/
def basicOfHeader (h : String) : Option (List UInt8 × List UInt8) :=
  let cs := h.toList
  if (cs.take 6).map asciiLower != ['b', 'a', 's', 'i', 'c', ' '] then none
  else (b64Decode (cs.drop 6)).bind cutColon

def hexVal (b : UInt8) : Option Nat :=
  if 48 ≤ b ∧ b ≤ 57 then some (b.toNat - 48)
  else if 65 ≤ b ∧ b ≤ 70 then some (b.toNat - 55)
  else if 97 ≤ b ∧ b ≤ 102 then some (b.toNat - 87)
  else none

/-- application/x-www-form-urlencoded decoding of a component (Go: `url.QueryUnescape`) -/
def queryUnescape : List UInt8 → Option (List UInt8)
  | [] => some []
  | 37 :: a :: b :: rest =>
    match hexVal a, hexVal b, queryUnescape rest with
    | some x, some y, some tl => some (byte (x * 16 + y) :: tl)
    | _, _, _ => none
  | 37 :: _ => none
  | 43 :: rest => (queryUnescape rest).map (32 :: ·)
  | c :: rest => (queryUnescape rest).map (c :: ·)

/-- bytes as text; `none` when they are not UTF-8 -/
def text (bs : List UInt8) : Option String := String.fromUTF8? (ByteArray.mk bs.toArray)

/-- a password that is not text, as a string: Go keeps such bytes as a string, which equals no text; here: a marker, then the bytes
    with everything outside ASCII written `\\xHH` (the registrations of the framework are text and do not start with the marker) -/
def nonText (bs : List UInt8) : String :=
  "\uFFFD<not-utf8>" ++ String.join (bs.map fun b =>
    if b.toNat < 128 then String.singleton (Char.ofNat b.toNat)
    else "\\x" ++ String.singleton (Nat.digitChar (b.toNat / 16)) ++ String.singleton (Nat.digitChar (b.toNat % 16)))

def textOrMark (bs : List UInt8) : String := (text bs).getD (nonText bs)

/-- the secret-type credential of a request, from the header bytes and the form.  A user name that is malformed or no text names
    nobody, a malformed password is no password (both: `none`, the credential fits nobody); a well-formed password that is no text
    is a password that equals no registered secret - a PUBLIC client named by the user name is still identified (round 4,
    thorough tier: `Basic base64("pub:\\xfe\\xff")` + a genuine refresh token is served, rightly) -/
def primaryOfWire (hdr : Option String) (form : EPValues) : Option C04.Presented :=
  match hdr.bind basicOfHeader with
  | some (u, p) =>
    match (queryUnescape u).bind text, (queryUnescape p).map textOrMark with
    | some id, some sec => some { clientID := id, secret := sec }
    | _, _ => none
  | none => some { clientID := form.last "client_id", secret := form.last "client_secret" }

/-- the credentials a request presents, read off the wire (`tokenOf`: what the JWT parsers make of an assertion string) -/
def credsOfWire (tokenOf : String → Token) (hdr : Option String) (form : EPValues) : Creds :=
  { assertion := some (tokenOf (form.last "client_assertion")),
    grantAssertion := some (tokenOf (form.last "assertion")),
    primary := primaryOfWire hdr form }

/-! concrete readings (tests of the parser, evaluated by the kernel) -/

def ascii (s : String) : List UInt8 := s.toList.map fun c => UInt8.ofNat c.toNat

example : basicOfHeader "Basic d2ViOnMtd2Vi" = some (ascii "web", ascii "s-web") := by decide
example : basicOfHeader "bAsIc d2ViOnMtd2Vi" = some (ascii "web", ascii "s-web") := by decide
example : basicOfHeader "Basic  d2ViOnMtd2Vi" = none ∧ basicOfHeader "Basic d2ViOnMtd2Vi " = none ∧ basicOfHeader " Basic d2ViOnMtd2Vi" = none := by decide
example : basicOfHeader "Bearer d2ViOnMtd2Vi" = none ∧ basicOfHeader "Basic" = none ∧ basicOfHeader "Basic d2Vi" = none := by decide
-- "web:s:x" : the password is everything after the FIRST colon; ":s" : empty user; "web:" : empty password
example : basicOfHeader "Basic d2ViOnM6eA==" = some (ascii "web", ascii "s:x") := by decide
example : basicOfHeader "Basic OnM=" = some ([], ascii "s") ∧ basicOfHeader "Basic d2ViOg==" = some (ascii "web", []) := by decide
-- missing padding / URL-safe alphabet are not standard base64
example : basicOfHeader "Basic d2ViOg" = none ∧ basicOfHeader "Basic d2Vi_g==" = none := by decide
example : queryUnescape (ascii "w%65b") = some (ascii "web") ∧ queryUnescape (ascii "a+b%3A") = some (ascii "a b:") := by decide
example : queryUnescape (ascii "web%zz") = none ∧ queryUnescape (ascii "web%2") = none ∧ queryUnescape (ascii "%") = none := by decide
example : queryUnescape (ascii "web%FF") = some (ascii "web" ++ [255]) := by decide   -- ... which is no text: `text` gives none

end C05.Wire
