/-
  C19 — "every advertised PKCE method and advertised request-object support is actually honoured by the endpoints", END TO END.

  The monitor for one authorization-code flow (`kind=honour`): what the client SENT (the plain query parameters, the claims of a
  request object it signed with its registered key and addressed to the issuer, what it knows about the code_challenge values
  relative to the verifier it holds), what the provider ADVERTISES (`request_parameter_supported`,
  `code_challenge_methods_supported` of the discovery document fetched from the same provider), and what was OBSERVED: the answer of
  the authorization endpoint, the authorization request the storage was handed, and the token endpoint's answer to the code of that
  request for each presented verifier.  It never says how the library merges the two sources or checks the verifier.

  Reading of "honoured":
  * request objects (OIDC Core §6.1: "parameters of the Request Object supersede those passed using the OAuth 2.0 request syntax"):
    when support is advertised and a valid object is sent, the request is processed, and every parameter the object sets reaches
    the stored request with the OBJECT's value (`scope` only when the query carries `scope=openid`, as §6.1 demands of the client);
  * PKCE (RFC 7636 §4.6): when the method the client is entitled to (the object's, else the query's) is advertised, exactly the
    verifier whose image under that method is the challenge redeems the code: the right one is accepted; another verifier, the
    challenge string itself, and no verifier at all are refused.
  Nothing is demanded for methods that are not advertised, or for request objects sent to a provider that does not advertise them.
-/
import OidcModel.Spec.C19

namespace C19

/-- the parameters of an authorization request that may travel in the query or inside a request object -/
structure HonParams where
  scopes : List String := []
  redirectURI : String := ""
  state : String := ""
  nonce : String := ""
  responseMode : String := ""
  display : String := ""
  prompt : List String := []
  maxAge : Option Nat := none
  uiLocales : List String := []
  idTokenHint : String := ""
  loginHint : String := ""
  acrValues : List String := []
  codeChallenge : String := ""
  codeChallengeMethod : String := ""
  deriving DecidableEq, Repr, Inhabited

/-- every parameter a request object may carry besides iss / aud / client_id / response_type (which must agree with the query) -/
inductive HonField
  | scope | redirectURI | state | nonce | responseMode | display | prompt | maxAge | uiLocales | idTokenHint | loginHint | acrValues
  | codeChallenge | codeChallengeMethod
  deriving DecidableEq, Repr, Inhabited

def HonField.all : List HonField :=
  [.scope, .redirectURI, .state, .nonce, .responseMode, .display, .prompt, .maxAge, .uiLocales, .idTokenHint, .loginHint, .acrValues,
   .codeChallenge, .codeChallengeMethod]

def HonField.name : HonField → String
  | .scope => "scope" | .redirectURI => "redirect_uri" | .state => "state" | .nonce => "nonce" | .responseMode => "response_mode"
  | .display => "display" | .prompt => "prompt" | .maxAge => "max_age" | .uiLocales => "ui_locales" | .idTokenHint => "id_token_hint"
  | .loginHint => "login_hint" | .acrValues => "acr_values" | .codeChallenge => "code_challenge" | .codeChallengeMethod => "code_challenge_method"

/-- a string parameter as a list of values: absent = no value -/
def strVal (s : String) : List String := if s == "" then [] else [s]

/-- the value of a parameter, uniformly as a list of strings (`[]` = the parameter is absent) -/
def HonField.value (p : HonParams) : HonField → List String
  | .scope => p.scopes | .redirectURI => strVal p.redirectURI | .state => strVal p.state | .nonce => strVal p.nonce
  | .responseMode => strVal p.responseMode | .display => strVal p.display | .prompt => p.prompt
  | .maxAge => (match p.maxAge with | some n => [toString n] | none => [])
  | .uiLocales => p.uiLocales | .idTokenHint => strVal p.idTokenHint | .loginHint => strVal p.loginHint | .acrValues => p.acrValues
  | .codeChallenge => strVal p.codeChallenge | .codeChallengeMethod => strVal p.codeChallengeMethod

/-- what the client sent -/
structure HonRequest where
  query : HonParams := {}
  /-- the claims of a request object the client signed with its registered key, issued by and for itself, addressed to the issuer
      (`none`: no `request` parameter) -/
  object : Option HonParams := none
  /-- what the sender knows about the code_challenge it put into the query, relative to the verifier it holds: "s256" =
      BASE64URL(SHA256(verifier)), "plain" = the verifier itself, "other" = neither, "" = none sent -/
  queryChallengeIs : String := ""
  /-- the same for the code_challenge inside the object -/
  objectChallengeIs : String := ""
  deriving Repr, Inhabited

/-- what was observed -/
structure HonObs where
  /-- "login" = the request was accepted and stored (redirect to the login page); else the OAuth error code (or `status-<n>`) -/
  authorize : String := ""
  /-- the authorization request the storage was handed -/
  stored : HonParams := {}
  /-- token endpoint, HTTP status per presented verifier: "right" = the verifier the sender holds, "wrong" = another one,
      "challenge" = the code_challenge string the client is entitled to, presented as verifier, "none" = no verifier -/
  token : List (String × Nat) := []
  deriving Repr, Inhabited

/-- does the object count: support advertised and an object sent -/
def HonRequest.objectCounts (advertisedRO : Bool) (rq : HonRequest) : Option HonParams :=
  if advertisedRO then rq.object else none

/-- the value of a parameter the client is entitled to: the object's when a counting object sets it, else the query's -/
def HonRequest.entitled (advertisedRO : Bool) (rq : HonRequest) (f : HonField) : List String :=
  match rq.objectCounts advertisedRO with
  | some o => if f.value o != [] then f.value o else f.value rq.query
  | none => f.value rq.query

/-- relation of the entitled code_challenge to the verifier the sender holds -/
def HonRequest.challengeIs (advertisedRO : Bool) (rq : HonRequest) : String :=
  match rq.objectCounts advertisedRO with
  | some o => if o.codeChallenge != "" then rq.objectChallengeIs else rq.queryChallengeIs
  | none => rq.queryChallengeIs

/-- request-object clause for one parameter: the object's value arrived -/
def objectFieldOK (rq : HonRequest) (o : HonParams) (stored : HonParams) (f : HonField) : Bool :=
  if f.value o == [] then true                                                  -- the object does not set it: nothing claimed here
  else if f == .scope && !rq.query.scopes.contains "openid" then true           -- §6.1: the client has to send scope=openid in the query
  else if f == .maxAge && ((if o.prompt != [] then o.prompt else rq.query.prompt).contains "login") then true  -- prompt=login asks for more than any max_age
  else f.value stored == f.value o

def tokenStatus (o : HonObs) (k : String) : Option Nat := (o.token.find? (·.1 == k)).map (·.2)

/-- PKCE clause -/
def pkceHonoured (advertisedMethods : List String) (advertisedRO : Bool) (rq : HonRequest) (o : HonObs) : Option String :=
  match rq.entitled advertisedRO .codeChallenge, rq.entitled advertisedRO .codeChallengeMethod with
  | [_], [m] =>
    if !advertisedMethods.contains m then none else
    let rel := rq.challengeIs advertisedRO
    let isImage := (m == "S256" && rel == "s256") || (m == "plain" && rel == "plain")
    let accepted := fun k => tokenStatus o k == some 200
    let answered := fun k => (tokenStatus o k).isSome
    if isImage then
      if answered "right" && !accepted "right" then some "right-verifier-refused"
      else if accepted "wrong" then some "wrong-verifier-accepted"
      else if m != "plain" && accepted "challenge" then some "challenge-accepted-as-verifier"
      else if accepted "none" then some "no-verifier-accepted"
      else none
    else if accepted "right" then some "non-preimage-accepted"
    else if accepted "none" then some "no-verifier-accepted"
    else none
  | _, _ => none

/-- the monitor for one flow: `none` = satisfied -/
def monitorHonour (advertisedRO : Bool) (advertisedMethods : List String) (rq : HonRequest) (o : HonObs) : Option String :=
  let usesFeature := (rq.objectCounts advertisedRO).isSome ||
    (match rq.entitled advertisedRO .codeChallengeMethod with | [m] => advertisedMethods.contains m | _ => false)
  if o.authorize != "login" then
    -- the stream only sends requests that are valid once the object is laid over the query
    if (rq.objectCounts advertisedRO).isSome then some ("request-object-not-honoured:refused:" ++ o.authorize)
    else if rq.object.isSome then none                                          -- not advertised: nothing promised
    else if usesFeature then some ("pkce-method-not-honoured:refused:" ++ o.authorize)
    else none
  else
    match (match rq.objectCounts advertisedRO with
           | some obj => HonField.all.find? (fun f => !objectFieldOK rq obj o.stored f)
           | none => none) with
    | some f => some ("request-object-not-honoured:" ++ f.name)
    | none =>
      match pkceHonoured advertisedMethods advertisedRO rq o with
      | some c => some ("pkce-method-not-honoured:" ++ c)
      | none => none

end C19
