/-
  C13 — remote JWKS key set under concurrency, rotation and failures.

  The property as an executable monitor over an OBSERVED run (`List Jwks.Obs`): per call its token,
  start, cancellation and outcome; per download its begin, end and how it ended; the history of
  key sets the endpoint served; and the two completion instants of a download (`announce`: its
  result is handed to the waiting calls, `retire`: cache updated / nobody can join it any more).

  Reading of the statement (DESIGN §4.21 and DESIGN_C13.md):
  * "verifies against a key set" is sequential key-set verification as proved sound for C02
    (`KeySet.VerifySignature` of a published set: `FindMatchingKey` + signature check).
  * ACCEPT  ⇒ the returned bytes are the token's payload and the token verifies against (a) the key set of
    the most recently retired SUCCESSFUL download as it stood at some instant of the call (a cache hit: the
    key was served at that download's end, an earlier instant), or (b) the key set of a successful download
    that was not yet announced when the call started (its refresh). A key that only an OLDER download
    contained is retired and must not verify anything any more.
  * REJECT (`noKey`/`badSig`) ⇒ either the token is rejected by the key set of a successful download
    that was still under way — NOT yet announced — at the instant the call, unanswered by the cache, turned to
    the endpoint (`ask`: the one refresh of that call, triggered or shared by it, is fresh; a call that never
    asked has had no refresh), or a successfully downloaded key set contains the very key the token names by a
    non-empty `kid` (or, with `SkipRemoteCheck`, the kid-less key for a kid-less token) and that key does not
    verify it — a `kid` names one key, so no refresh can help.
    The linearisation point is `ask`, not the call's start: between its start (cache lookup) and `ask` a call can be
    overtaken by the publication of an OLDER download, whose answer may predate a rotation; a rejection that rests
    on such a download alone ("the cache was synced since I looked") is a rejection WITHOUT a refresh, although the
    endpoint has been serving the token's key since before the call began.
  * a call's OWN CONTEXT IS LIVE at an instant iff neither `cancel c` nor `expire c` (its deadline passed) has been observed
    before that instant: a deadline is a cancellation by the clock, and the statement speaks of "its own context".
    own-context error ⇒ that call's context has ended (cancelled or past its deadline).  fetch error ⇒ a download that was not
    yet announced when the call asked ended with exactly that failure; a download that was aborted
    by the end of a context (`context canceled` or `context deadline exceeded`: somebody's cancellation or somebody's
    deadline) fails a call only if that call's own context has ended (cancel isolation, for both kinds of ending).
  * a failed download never discards cached keys: if, at every instant of the call, the key set of the
    most recently retired successful download verifies the token, the call must not end in an error.
  * what counts as a download: the endpoint's answer (`Answer`) is a SUCCESSFUL download exactly when its status is 200 and
    its WHOLE body is one well-formed JSON document of the JWKS shape; the key set it serves is then the document's entries of
    known key type. Anything else — another status even with a perfect key set as body, text that is not JSON, truncated JSON,
    a key set followed or preceded by other bytes (a BOM, junk, a second JSON value, a second key set), JSON of another shape — is
    a FAILED download: the calls waiting for it fail, the cache keeps what it had, and no token is accepted because of it.
    "JWKS shape" is what `encoding/json` reads into `struct{ Keys []json.RawMessage }` (so `null`, `{}` and `{"keys":null}` denote
    the empty key set, like `{"keys":[]}`; an array, a string, `{"keys":5}` do not have the shape).
  * single flight: no download begins while another one has begun and not ended; at most one
    download begins on behalf of one call ("at most one refresh", per call).
  Outside the monitor (partial): liveness (every call returns), anything below the schedule points.
-/
import OidcModel.Model.JwksObs

namespace C13
open Jwks

/-- the token verifies against key set `ks` (C02's sequential published-key-set semantics) -/
def refAccepts (ks : List JWK) (j : JWS) : Bool :=
  (KeySet.VerifySignature { kind := .published, keys := ks } j).toBool

/-- `ks` contains the key the token names, and that key does not verify the token -/
def namedKeyRejects (skip : Bool) (ks : List JWK) (j : JWS) : Bool :=
  match Hand.FindMatchingKey (Hand.GetKeyIDAndAlg j).1 "sig" (Hand.GetKeyIDAndAlg j).2 ks with
  | .ok k =>
    !(Hand.jwsVerify j k).toBool &&
      (if k.KeyID == "" && (Hand.GetKeyIDAndAlg j).1 == "" then skip else k.KeyID == (Hand.GetKeyIDAndAlg j).1)
  | .error _ => false

/-- what the monitor remembers of a call -/
structure MCaller where
  tok : JWS := default
  started : Bool := false
  finished : Bool := false
  cancelled : Bool := false              -- the call's own context has ENDED: `cancel c` or `expire c` (deadline passed) was observed
  stale : Fid → Bool := fun _ => false   -- downloads already announced when the call started
  asked : Fid → Bool := fun _ => true    -- downloads already announced when the call turned to the endpoint (`ask`); before that instant: all
  hit : Bool := false                    -- every key set the cache had to hold since the call started verifies the token
  mayHit : Bool := false                 -- some key set the cache had to hold at some instant since the call started verifies it
  owned : Nat := 0                       -- downloads begun on behalf of this call

structure MState where
  skip : Bool := false                                -- the key set was built with `SkipRemoteCheck()`
  served : List ServedKey := []
  callers : Cid → MCaller := fun _ => {}
  nf : Nat := 0                                       -- downloads seen so far have ids < nf
  begun : Fid → Bool := fun _ => false
  res : Fid → Option (EndKind × List JWK) := fun _ => none   -- how it ended; for `ok` the decoded key set served then
  announced : Fid → Bool := fun _ => false
  cacheExpect : List JWK := []                        -- key set of the most recently retired successful download
  viol : Option String := none                        -- first clause found violated

def MState.flag (m : MState) (clause : String) : MState :=
  match m.viol with
  | some _ => m
  | none => { m with viol := some clause }

/-- key set of a successful download -/
def okKeys (m : MState) (f : Fid) : Option (List JWK) :=
  match m.res f with
  | some (.ok, ks) => some ks
  | _ => none

def failedWith (m : MState) (f : Fid) (k : EndKind) : Bool :=
  match m.res f with
  | some (k', _) => k' != .ok && k' == k
  | none => false

/-- some download begun and not ended -/
def anyOpen (m : MState) : Bool := (List.range m.nf).any fun g => m.begun g && (m.res g).isNone

/-- ACCEPT: the key set the cache had to hold at some instant of the call (= the most recently retired successful download)
    verifies the token, or a successful download that was unannounced when the call started does. A key of an OLDER download
    that a later successful download no longer contains is retired: it justifies nothing. -/
def acceptJustified (m : MState) (mc : MCaller) : Bool :=
  mc.mayHit || (List.range m.nf).any fun f =>
    match okKeys m f with
    | some ks => !mc.stale f && refAccepts ks mc.tok
    | none => false

/-- REJECT: the key set of a successful download that was unannounced when the call asked rejects the token, or the named key is known and rejects it -/
def rejectJustified (m : MState) (mc : MCaller) : Bool :=
  (List.range m.nf).any fun f =>
    match okKeys m f with
    | some ks => (!mc.asked f && !refAccepts ks mc.tok) || namedKeyRejects m.skip ks mc.tok
    | none => false

/-- FETCH ERROR `k`: a download that was unannounced when the call asked ended with failure `k` -/
def fetchErrJustified (m : MState) (mc : MCaller) (k : EndKind) : Bool :=
  (List.range m.nf).any fun f => !mc.asked f && failedWith m f k

/-- the clause violated by call `c` returning `o` (none = fine) -/
def judge (m : MState) (c : Cid) (o : Outcome) : Option String :=
  let mc := m.callers c
  if !mc.started || mc.finished then some "finish-without-call" else
  match o with
  | .payload b =>
    if b != mc.tok.payload.bytes then some "payload-changed"
    else if acceptJustified m mc then none else some "accepted-without-served-key"
  | .ctxErr => if mc.cancelled then none else some "ctx-error-with-live-context"
  | .fetchErr k =>
    if mc.hit then some "cached-keys-discarded"
    else if k == .cancelled && !mc.cancelled then some "cancel-isolation"
    else if fetchErrJustified m mc k then none else some "fetch-error-without-failed-download"
  | .noKey | .badSig =>
    if mc.hit then some "cached-keys-discarded"
    else if rejectJustified m mc then none else some "rejected-without-fresh-key-set"
  | .panic => some "panic"
  | .stuck => some "stuck"
  | .other => some "unclassified-outcome"

/-- one observation -/
def mstep (m : MState) : Obs → MState
  | .start c tok =>
    if (m.callers c).started then m.flag "call-id-reused" else
    let mc : MCaller := { tok := tok, started := true, stale := m.announced, hit := refAccepts m.cacheExpect tok, mayHit := refAccepts m.cacheExpect tok }
    { m with callers := upd m.callers c mc }
  | .finish c o =>
    let m' := match judge m c o with
      | some cl => m.flag cl
      | none => m
    { m' with callers := upd m'.callers c { m'.callers c with finished := true } }
  | .cancel c => { m with callers := upd m.callers c { m.callers c with cancelled := true } }
  | .rotate ks => { m with served := ks }
  | .fetchBegin f owner =>
    let m1 := if anyOpen m then m.flag "second-download-in-flight" else m
    let m2 := if !(m1.callers owner).started then m1.flag "download-without-call"
              else if (m1.callers owner).owned ≥ 1 then m1.flag "second-refresh-in-one-call" else m1
    let m3 := if m2.begun f then m2.flag "download-id-reused" else m2
    let mo : MCaller := { m3.callers owner with owned := (m3.callers owner).owned + 1 }
    { m3 with nf := max m3.nf (f + 1), begun := upd m3.begun f true, callers := upd m3.callers owner mo }
  | .fetchEnd f a =>
    let m1 := if !m.begun f || (m.res f).isSome then m.flag "download-end-without-begin" else m
    { m1 with res := upd m1.res f (some (endOf a)) }
  | .announce f => { m with announced := upd m.announced f true }
  | .retire f =>
    match okKeys m f with
    | some ks =>
      { m with cacheExpect := ks, callers := fun c => { m.callers c with hit := (m.callers c).hit && refAccepts ks (m.callers c).tok, mayHit := (m.callers c).mayHit || refAccepts ks (m.callers c).tok } }
    | none => m
  | .point _ _ => m
  | .ask c => { m with callers := upd m.callers c { m.callers c with asked := m.announced } }
  | .expire c => { m with callers := upd m.callers c { m.callers c with cancelled := true } }

def mrun (m : MState) (obs : List Obs) : MState := obs.foldl mstep m

/-- The monitor: the first violated clause of an observed run (none = the run satisfies the property). -/
def monitor (skip : Bool) (obs : List Obs) : Option String := (mrun { skip := skip } obs).viol

end C13
