/-
  C14 — JWT assertions and request objects count only when signed by the named client.
  Spec-level (code-independent) statement of when an assertion proves a client identity.
-/
import OidcModel.Spec.C02
import OidcModel.Model.OP

namespace C14
open Go

def halfSecond : Int := 500000000

/-- conditions on an assertion's claims, at instant `now` (rounding tolerance `m` as in C01) -/
def claimClauses (issuer : String) (maxAgeIAT offset : Int) (subjectMustBeIssuer : Bool) (c : Claims) (now : Int) (m : Int) : List (String × Bool) :=
  [ ("audience",       c.aud.contains issuer),
    ("not-expired",    decide (now + offset + max m 0 < Go.asTime c.exp)),
    ("iat-present",    Go.asTime c.iat != Go.zeroTime),
    ("iat-not-future", decide (Go.asTime c.iat + m ≤ now + offset)),
    ("iat-not-old",    maxAgeIAT == 0 || decide (Go.asTime c.iat ≥ now - maxAgeIAT + m)),
    ("sub-is-iss",     !subjectMustBeIssuer || c.sub == c.iss) ]

/-- the keys the storage holds for client `id` -/
def clientKeys (registry : List (String × JWK)) (id : String) : KeySet :=
  { kind := .jwtProfile, keys := (registry.filter (·.1 == id)).map (·.2) }

/-- An accepted assertion must: be a well-formed single-signature token (C02, default allow-list)
    signed with a key the storage holds for the client NAMED AS ISSUER, and meet the claim
    conditions.  Returns the failing clause. -/
def assertionOK (issuer : String) (maxAgeIAT offset : Int) (subjectMustBeIssuer : Bool) (registry : List (String × JWK))
    (t : Token) (now : Int) (returned : Claims) : Option String :=
  match C02.acceptedOK [] (clientKeys registry returned.iss) t returned with
  | some cl => some ("signature:" ++ cl)
  | none => ((claimClauses issuer maxAgeIAT offset subjectMustBeIssuer returned now (-halfSecond)).find? (fun p => !p.2)).map (·.1)

/-- the client identity a token proves as `client_assertion` (none: proves nothing) -/
def provesClient (issuer : String) (maxAgeIAT offset : Int) (registry : List (String × JWK)) (t : Token) (now : Int) : Option String :=
  match t.middle.bind (·.claims) with
  | none => none
  | some c => if (assertionOK issuer maxAgeIAT offset true registry t now c).isNone then some c.iss else none

end C14

namespace C14

/-- the plain parameters that a request object may override -/
def overridable (a : AuthRequestIn) : AuthRequestIn := { a with RequestParam := "", RequestToken := default }

/-- Request objects: if the provider went on with parameters that differ from the plain ones (or at
    all accepted the object), the object must be a token signed by a key registered for the REQUESTING
    client, name it as issuer, target this issuer and agree with the outer client_id / response_type. -/
def requestObjectOK (issuer : String) (registry : List (String × JWK)) (plain : AuthRequestIn) (after : Option AuthRequestIn) : Option String :=
  match after with
  | none => none
  | some a' =>
    match plain.RequestToken.middle.bind (·.claims) with
    | none => some "accepted-undecodable-object"
    | some ro =>
      match C02.acceptedOK [] (clientKeys registry plain.ClientID) plain.RequestToken ro with
      | some cl => some ("not-signed-by-the-requesting-client:" ++ cl)
      | none =>
        if ro.iss != plain.ClientID then some "issuer-is-not-the-requesting-client"
        else if !ro.aud.contains issuer then some "audience"
        else if ro.clientID != plain.ClientID then some "client_id-disagrees"
        else if ro.ro.ResponseType != "" && ro.ro.ResponseType != plain.ResponseType then some "response_type-disagrees"
        else
          -- only parameters present in the object may change, and they change to the object's value
          let ok :=
            (a'.RedirectURI == (if ro.ro.RedirectURI != "" then ro.ro.RedirectURI else plain.RedirectURI)) &&
            (a'.State == (if ro.ro.State != "" then ro.ro.State else plain.State)) &&
            (a'.Nonce == (if ro.ro.Nonce != "" then ro.ro.Nonce else plain.Nonce)) &&
            (a'.ResponseMode == (if ro.ro.ResponseMode != "" then ro.ro.ResponseMode else plain.ResponseMode)) &&
            (a'.CodeChallenge == (if ro.ro.CodeChallenge != "" then ro.ro.CodeChallenge else plain.CodeChallenge)) &&
            (a'.CodeChallengeMethod == (if ro.ro.CodeChallengeMethod != "" then ro.ro.CodeChallengeMethod else plain.CodeChallengeMethod)) &&
            (a'.Scopes == (if plain.Scopes.contains "openid" && !ro.ro.Scopes.isEmpty then ro.ro.Scopes else plain.Scopes)) &&
            (a'.ClientID == plain.ClientID) && (a'.ResponseType == plain.ResponseType)
          if ok then none else some "parameters-not-from-object-or-query"

/-- assertions minted by the library's own client helper for a registered key must be accepted -/
def helperOK (accepted : Bool) : Option String := if accepted then none else some "helper-assertion-rejected"

end C14
