/-
  C14 — JWT assertions and request objects count only when signed by the named client.
  Spec-level (code-independent) statement of when an assertion proves a client identity.
-/
import OidcModel.Spec.C02
import OidcModel.Model.OP

namespace C14
open Go

def halfSecond : Int := 500000000

/-- conditions on an assertion's claims, at instant `now` (rounding tolerance `m` as in C01) -/
def claimClauses (issuer : String) (maxAgeIAT offset : Int) (subjectMustBeIssuer : Bool) (c : Claims) (now : Int) (m : Int) : List (String × Bool) :=
  [ ("audience",       c.aud.contains issuer),
    ("not-expired",    decide (now + offset + max m 0 < Go.asTime c.exp)),
    ("iat-present",    Go.asTime c.iat != Go.zeroTime),
    ("iat-not-future", decide (Go.asTime c.iat + m ≤ now + offset)),
    ("iat-not-old",    maxAgeIAT == 0 || decide (Go.asTime c.iat ≥ now - maxAgeIAT + m)),
    ("sub-is-iss",     !subjectMustBeIssuer || c.sub == c.iss) ]

/-- the keys the storage holds for client `id` -/
def clientKeys (registry : List (String × JWK)) (id : String) : KeySet :=
  { kind := .jwtProfile, keys := (registry.filter (·.1 == id)).map (·.2) }

/-- An accepted assertion must: be a well-formed single-signature token (C02, default allow-list)
    signed with a key the storage holds for the client NAMED AS ISSUER, and meet the claim
    conditions.  Returns the failing clause. -/
def assertionOK (issuer : String) (maxAgeIAT offset : Int) (subjectMustBeIssuer : Bool) (registry : List (String × JWK))
    (t : Token) (now : Int) (returned : Claims) : Option String :=
  match C02.acceptedOK [] (clientKeys registry returned.iss) t returned with
  | some cl => some ("signature:" ++ cl)
  | none => ((claimClauses issuer maxAgeIAT offset subjectMustBeIssuer returned now (-halfSecond)).find? (fun p => !p.2)).map (·.1)

/-- the client identity a token proves as `client_assertion` (none: proves nothing) -/
def provesClient (issuer : String) (maxAgeIAT offset : Int) (registry : List (String × JWK)) (t : Token) (now : Int) : Option String :=
  match t.middle.bind (·.claims) with
  | none => none
  | some c => if (assertionOK issuer maxAgeIAT offset true registry t now c).isNone then some c.iss else none

end C14
