/-
  C14 — JWT assertions and request objects count only when signed by the named client.
  Spec-level (code-independent) statement of when an assertion proves a client identity.
-/
import OidcModel.Spec.C02
import OidcModel.Model.OP

namespace C14
open Go

def halfSecond : Int := 500000000

/-- conditions on an assertion's claims, at instant `now` (rounding tolerance `m` as in C01) -/
def claimClauses (issuer : String) (maxAgeIAT offset : Int) (subjectMustBeIssuer : Bool) (c : Claims) (now : Int) (m : Int) : List (String × Bool) :=
  [ ("audience",       c.aud.contains issuer),
    ("not-expired",    decide (now + offset + max m 0 < Go.asTime c.exp)),
    ("iat-present",    Go.asTime c.iat != Go.zeroTime),
    ("iat-not-future", decide (Go.asTime c.iat + m ≤ now + offset)),
    ("iat-not-old",    maxAgeIAT == 0 || decide (Go.asTime c.iat ≥ now - maxAgeIAT + m)),
    ("sub-is-iss",     !subjectMustBeIssuer || c.sub == c.iss) ]

/-- the keys the storage holds for client `id` -/
def clientKeys (registry : List (String × JWK)) (id : String) : KeySet :=
  { kind := .jwtProfile, keys := (registry.filter (·.1 == id)).map (·.2) }

/-- An accepted assertion must: be a well-formed single-signature token (C02, default allow-list)
    signed with a key the storage holds for the client NAMED AS ISSUER, and meet the claim
    conditions.  Returns the failing clause. -/
def assertionOK (issuer : String) (maxAgeIAT offset : Int) (subjectMustBeIssuer : Bool) (registry : List (String × JWK))
    (t : Token) (now : Int) (returned : Claims) : Option String :=
  match C02.acceptedOK [] (clientKeys registry returned.iss) t returned with
  | some cl => some ("signature:" ++ cl)
  | none => ((claimClauses issuer maxAgeIAT offset subjectMustBeIssuer returned now (-halfSecond)).find? (fun p => !p.2)).map (·.1)

/-- the client identity a token proves as `client_assertion` (none: proves nothing) -/
def provesClient (issuer : String) (maxAgeIAT offset : Int) (registry : List (String × JWK)) (t : Token) (now : Int) : Option String :=
  match t.middle.bind (·.claims) with
  | none => none
  | some c => if (assertionOK issuer maxAgeIAT offset true registry t now c).isNone then some c.iss else none

end C14

namespace C14

/-- the plain parameters that a request object may override -/
def overridable (a : AuthRequestIn) : AuthRequestIn := { a with RequestParam := "", RequestToken := default }

/-- Request objects: if the provider went on with parameters that differ from the plain ones (or at
    all accepted the object), the object must be a token signed by a key registered for the REQUESTING
    client, name it as issuer, target this issuer and agree with the outer client_id / response_type. -/
def requestObjectOK (issuer : String) (registry : List (String × JWK)) (plain : AuthRequestIn) (after : Option AuthRequestIn) : Option String :=
  match after with
  | none => none
  | some a' =>
    match plain.RequestToken.middle.bind (·.claims) with
    | none => some "accepted-undecodable-object"
    | some ro =>
      match C02.acceptedOK [] (clientKeys registry plain.ClientID) plain.RequestToken ro with
      | some cl => some ("not-signed-by-the-requesting-client:" ++ cl)
      | none =>
        if ro.iss != plain.ClientID then some "issuer-is-not-the-requesting-client"
        else if !ro.aud.contains issuer then some "audience"
        else if ro.clientID != plain.ClientID then some "client_id-disagrees"
        else if ro.ro.ResponseType != "" && ro.ro.ResponseType != plain.ResponseType then some "response_type-disagrees"
        else
          -- only parameters present in the object may change, and they change to the object's value
          let ok :=
            (a'.RedirectURI == (if ro.ro.RedirectURI != "" then ro.ro.RedirectURI else plain.RedirectURI)) &&
            (a'.State == (if ro.ro.State != "" then ro.ro.State else plain.State)) &&
            (a'.Nonce == (if ro.ro.Nonce != "" then ro.ro.Nonce else plain.Nonce)) &&
            (a'.ResponseMode == (if ro.ro.ResponseMode != "" then ro.ro.ResponseMode else plain.ResponseMode)) &&
            (a'.CodeChallenge == (if ro.ro.CodeChallenge != "" then ro.ro.CodeChallenge else plain.CodeChallenge)) &&
            (a'.CodeChallengeMethod == (if ro.ro.CodeChallengeMethod != "" then ro.ro.CodeChallengeMethod else plain.CodeChallengeMethod)) &&
            (a'.Scopes == (if plain.Scopes.contains "openid" && !ro.ro.Scopes.isEmpty then ro.ro.Scopes else plain.Scopes)) &&
            (a'.ClientID == plain.ClientID) && (a'.ResponseType == plain.ResponseType)
          if ok then none else some "parameters-not-from-object-or-query"

/-- assertions minted by the library's own client helper for a registered key must be accepted -/
def helperOK (accepted : Bool) : Option String := if accepted then none else some "helper-assertion-rejected"

end C14

/-! ### Endpoints (deepening): an assertion is judged for the issuer the REQUEST is addressed to

A provider may serve several issuers (`op.IssuerFromHost`, `IssuerFromForwardedOrHost`, `NewDynamicOpenIDProvider`).  "Its audience
contains the provider's issuer" then means the issuer of THIS request - the virtual host / Forwarded header it arrived under - not
some other tenant's and not the issuer of whichever request the provider happened to serve first. -/
namespace C14

/-- the assertion settings of `op.Provider`: assertions at most one hour old, one second of tolerance -/
def providerMaxAgeIAT : Int := 3600 * Go.second
def providerOffset : Int := Go.second

/-- one request to an endpoint that consumes an assertion (token endpoint: jwt-bearer grant or private_key_jwt client
    authentication; introspection, revocation, device authorization: client authentication) -/
structure EndpointReq where
  reqIssuer : String                    -- the issuer this request is addressed to
  assertion : Token
  bearerGrant : Bool := false           -- the assertion is the grant itself (jwt-bearer)
  requestedScopes : List String := []   -- jwt-bearer: the `scope` parameter
  refusedScopes : List String := []     -- jwt-bearer: what the storage's scope policy refuses to the assertion's issuer
  /-- provenance (a fact about the INPUT): minted by `client.SignedJWTProfileAssertion` for a client that is registered for
      private_key_jwt, the grant material (code, refresh token, device code) presented with it being valid and that client's own -/
  helperMade : Bool := false
  /-- the assertion is used for CLIENT AUTHENTICATION (private_key_jwt: token endpoint with the code / refresh / device /
      token-exchange grant, introspection, revocation, device authorization - everything but the jwt-bearer grant): a client
      authenticates in the way it is registered; `registeredMethod` = the registered authentication method of the client named
      as issuer (none: no such client) -/
  clientAuth : Bool := false
  registeredMethod : Option String := none
  /-- apart from the assertion the request is one the endpoint has to honour for the client named as issuer (a fact about the
      INPUT: that client is registered for private_key_jwt, the provider has the method switched on, the grant material is valid
      and that client's own) -/
  contextOK : Bool := false
  /-- (deep 3) provenance (a fact about the INPUT): the assertion was made AND addressed by the library's own client code, which was
      told only the issuer, the client id, the key id and the key (`profile.NewJWTProfileTokenSource(issuer, …).TokenCtx`,
      `rs.NewResourceServerJWTProfile(issuer, …)` + `rs.Introspect`): audience, subject, times, header and signature are the
      library's choice; the key is one the storage holds for that client under that key id -/
  libraryAddressed : Bool := false
  /-- (deep 4) "its subject equals its issuer (unless a custom subject check is configured)": a fact about the CONFIGURATION - the
      verifier this provider judges assertions with carries a custom subject check (`op.SubjectCheck`), given as a predicate on the
      claims (what the configured check admits); `none`: the default (sub = iss).  The same verifier serves the jwt-bearer grant and
      client authentication; whatever the check admits as SUBJECT, the authenticated client identity stays the ISSUER -/
  subjectCheck : Option (Claims → Bool) := none

/-- what the endpoint was observed to do -/
structure EndpointObs where
  accepted : Bool                         -- it honoured the assertion (200 with the grant's / the lookup's result)
  identity : Option String := none        -- the client identity it went on with (from its storage calls), where one shows
  scopes : Option (List String) := none   -- jwt-bearer: scopes of the granted token

/-- is the single signature of `t` a genuine signature by a key the storage holds, under that key id, for client `id` -/
def signedByRegisteredKey (registry : List (String × JWK)) (id : String) (t : Token) : Bool :=
  match t.jws with
  | some j =>
    match j.Signatures with
    | [s] => (clientKeys registry id).keys.any fun k => C02.justifies (clientKeys registry id) j s k
    | _ => false
  | none => false

/-- (soundness) an endpoint that honoured the assertion of a request addressed to `reqIssuer`: the assertion proves a client
    identity FOR THAT ISSUER (signed by a key registered for the client it names as issuer, `reqIssuer` in its audience, within
    the time window, sub = iss - or, where a custom subject check is configured, a subject that check admits), the endpoint went
    on as exactly that client (the ISSUER, whatever the subject), and a jwt-bearer grant carries only scopes that were
    requested and that the storage's policy does not refuse to that issuer; as client authentication (every endpoint of both
    routers) an assertion authenticates only a client that is registered for private_key_jwt -/
def endpointSound (registry : List (String × JWK)) (rq : EndpointReq) (now : Int) (obs : EndpointObs) : Option String :=
  if !obs.accepted then none else
  match rq.assertion.middle.bind (·.claims) with
  | none => some "accepted-undecodable-assertion"
  | some c =>
    match assertionOK rq.reqIssuer providerMaxAgeIAT providerOffset rq.subjectCheck.isNone registry rq.assertion now c with
    | some cl => some cl
    | none =>
      if rq.subjectCheck.any (fun admits => !admits c) then some "subject-refused-by-the-configured-check"
      else if obs.identity.any (· != c.iss) then some "identity-is-not-the-issuer"
      else if rq.clientAuth && rq.registeredMethod != some Const.AuthMethodPrivateKeyJWT then some "client-not-registered-for-private_key_jwt"
      else if rq.bearerGrant && obs.scopes.any (fun g => g.any fun s => !rq.requestedScopes.contains s || rq.refusedScopes.contains s)
        then some "scope-not-validated-for-the-issuer"
      else none

/-- an assertion PROPERLY MADE for `issuer` (the accepting direction of the statement): well-formed, one signature with an admitted
    algorithm over the presented payload, genuine under the key the storage hands out for its key id and the client it names as
    issuer, and every claim condition met with the rounding margin on the safe side; yields the claims and the algorithm -/
def properlyMade (issuer : String) (maxAgeIAT offset : Int) (registry : List (String × JWK)) (t : Token) (now : Int) : Option (Claims × String) :=
  if t.segs != 3 then none else
  match t.middle, t.jws with
  | some p, some j =>
    match p.claims, j.Signatures with
    | some c, [s] =>
      if Gen.defaultSigAlgs.contains s.Header.Algorithm && p.bytes == j.payload.bytes
          && (((clientKeys registry c.iss).keys.find? fun k => k.KeyID == s.Header.KeyID).any fun k => C02.genuine j s k)
          && (claimClauses issuer maxAgeIAT offset true c now halfSecond).all (·.2)
      then some (c, s.Header.Algorithm) else none
    | _, _ => none
  | _, _ => none

/-- (helpers are accepted) an assertion that the library's own client helper made for the ADDRESSED issuer with a key registered
    for the client must be honoured there -/
def endpointHelper (registry : List (String × JWK)) (rq : EndpointReq) (obs : EndpointObs) : Option String :=
  match rq.assertion.middle.bind (·.claims) with
  | none => none
  | some c =>
    -- (deep 4) a configured subject check that refuses the helper's sub = iss takes the demand away
    if rq.subjectCheck.any (fun admits => !admits c) then none
    else if rq.helperMade && c.aud.contains rq.reqIssuer && c.sub == c.iss && signedByRegisteredKey registry c.iss rq.assertion && !obs.accepted
    then some "helper-assertion-rejected"
    else if rq.helperMade && rq.libraryAddressed && !obs.accepted then some "helper-assertion-rejected"
    else none

/-- (completeness, any origin) an assertion that is properly made for the ADDRESSED issuer at both ends of the call - hence at
    every instant in between: each time condition is monotone - must be honoured when the rest of the request is in order -/
def endpointProper (registry : List (String × JWK)) (rq : EndpointReq) (now0 now1 : Int) (obs : EndpointObs) : Option String :=
  if rq.contextOK && !obs.accepted
      && !(rq.subjectCheck.any fun admits => (rq.assertion.middle.bind (·.claims)).any fun c => !admits c)
      && (properlyMade rq.reqIssuer providerMaxAgeIAT providerOffset registry rq.assertion now0).isSome
      && (properlyMade rq.reqIssuer providerMaxAgeIAT providerOffset registry rq.assertion now1).isSome
  then some "proper-assertion-rejected" else none

end C14

/-! ### One verifier object, many assertions (deep 3)

`op.NewJWTProfileVerifier` takes a FIXED issuer: an OP may keep one `*op.JWTProfileVerifier` for its whole life and hand it to
`op.VerifyJWTAssertion` / `ClientJWTAuth` / `AuthorizePrivateJWTKey` / the jwt-bearer grant for every request.  The statement
speaks about each assertion on its own ("signed with a key the storage holds for the client named as issuer"): every answer of
such an object is judged INDEPENDENTLY of what the object was asked before - there is no history argument below. -/
namespace C14

/-- one answer of a verifier (issuer, max age, offset, default subject check or a custom one; `registry` = the client keys
    the storage holds) to the assertion `t`, asked between the instants `now0` and `now1`: `accepted = some claims` or a refusal.
    * soundness: an accepted assertion meets `assertionOK` (a time-dependent clause counts only when it fails at both ends);
    * the library's own helper: an assertion that `client.SignedJWTProfileAssertion` / `oidc.GenerateJWTProfileToken` made
      (`helperMade`: a fact about the INPUT - the helper was called with this verifier's issuer in the audience list, with a
      key the storage holds for the named client and with the key id the storage holds it under; everything else about the
      token is the helper's doing) is accepted;
    * any origin: an assertion properly made at both ends of the call (default subject check) is accepted. -/
def sequenceStepOK (issuer : String) (maxAgeIAT offset : Int) (subjectMustBeIssuer : Bool) (registry : List (String × JWK))
    (t : Token) (helperMade : Bool) (now0 now1 : Int) (accepted : Option Claims) : Option String :=
  match accepted with
  | some c =>
    match assertionOK issuer maxAgeIAT offset subjectMustBeIssuer registry t now0 c,
          assertionOK issuer maxAgeIAT offset subjectMustBeIssuer registry t now1 c with
    | some cl, some _ => some cl
    | _, _ => none
  | none =>
    if helperMade then some "helper-assertion-rejected"
    else if subjectMustBeIssuer && (properlyMade issuer maxAgeIAT offset registry t now0).isSome
              && (properlyMade issuer maxAgeIAT offset registry t now1).isSome then some "proper-assertion-rejected"
    else none

end C14
