/-
  Go prelude: the (small) vocabulary the translator `factgen` maps Go source onto.
  Everything here is core Lean, total and computable.  Time is modelled as in DESIGN §2.3:
  `time.Time` = Int nanoseconds since the Unix epoch, the zero `time.Time{}` is `zeroTime`;
  `time.Duration` = Int nanoseconds; `oidc.Time` = Int seconds with 0 ↦ zero time.
-/
namespace Go

/-- Go's `(T, error)`; errors are the names of the sentinel values (`ErrExpired`, …). -/
abbrev R (α : Type) := Except String α

def second : Int := 1000000000
/-- `time.Time{}` (January 1, year 1, 00:00:00 UTC) in ns relative to the Unix epoch. -/
def zeroTime : Int := -62135596800000000000

def tAdd (t d : Int) : Int := t + d
def tSub (a b : Int) : Int := a - b
/-- `time.Time.Round(d)`: nearest multiple of `d` since the zero time, halfway values round up. -/
def tRound (t d : Int) : Int :=
  if d ≤ 0 then t else
  let r := (t - zeroTime) % d
  if r + r < d then t - r else t + (d - r)
def tBefore (a b : Int) : Bool := decide (a < b)
def tAfter (a b : Int) : Bool := decide (a > b)
def tIsZero (t : Int) : Bool := t == zeroTime
/-- `time.Unix(sec, 0)` -/
def tUnix (sec : Int) : Int := sec * second
/-- `time.Time.Unix()` (floor division: Go returns seconds since epoch, rounding toward -inf) -/
def tToUnix (t : Int) : Int := t / second

/-- `oidc.Time.AsTime` -/
def asTime (ts : Int) : Int := if ts == 0 then zeroTime else tUnix ts
/-- `oidc.FromTime` -/
def fromTime (t : Int) : Int := if tIsZero t then 0 else tToUnix t

class HasLen (α : Type) where
  len : α → Int
instance {α : Type} : HasLen (List α) := ⟨fun l => l.length⟩
instance : HasLen String := ⟨fun s => s.utf8ByteSize⟩
def len {α : Type} [HasLen α] (x : α) : Int := HasLen.len x
def contains {α : Type} [BEq α] (l : List α) (x : α) : Bool := l.contains x
/-- `strings.HasPrefix` (structural on the character lists, so that the kernel can evaluate it) -/
def hasPrefix (s p : String) : Bool := p.toList.isPrefixOf s.toList
/-- `strings.HasSuffix` -/
def hasSuffix (s p : String) : Bool := p.toList.isSuffixOf s.toList

def any {α : Type} (l : List α) (p : α → Bool) : Bool := l.any p

def ok : R Unit := .ok ()

/-- call of an optional (nil-able) Go function value returning `error` -/
def callOpt {α : Type} (f : Option (α → R Unit)) (x : α) : R Unit :=
  match f with
  | some g => g x
  | none => .error "nil-func-call-panic"

/-- `append(l, x)` read functionally (the translator only emits it for slices that own their backing array, or for
    functions whose theorems concern the returned value only) -/
def append {α : Type} (l : List α) (x : α) : List α := l ++ [x]

end Go
