/-
  Go prelude, part 3: vocabulary of the translator's `LoopStyle "ctl"` — a `range` loop whose body both updates
  variables of the enclosing function and leaves early (`return`, `break`, `continue`), such as the loops of
  `oidc.GetKeyIDAndAlg` and `oidc.FindMatchingKey`.  Core Lean, total, computable; no model types.
-/
namespace GoX

/-- how one iteration of the loop body ends: it falls through / `continue`s with the new state, `break`s with the
    new state, or `return`s a result of the enclosing function -/
inductive Ctl (σ β : Type)
  | next (s : σ)
  | brk (s : σ)
  | ret (r : β)

/-- `for _, v := range l { body }`: `.inl r` — the function returned `r` from inside the loop; `.inr s` — the loop
    ended (exhausted or `break`) with the variables in state `s` -/
def loopCtl {α σ β : Type} (l : List α) (init : σ) (f : σ → α → Ctl σ β) : Sum β σ :=
  match l with
  | [] => .inr init
  | x :: xs =>
    match f init x with
    | .next s => loopCtl xs s f
    | .brk s => .inr s
    | .ret r => .inl r

end GoX
