/-
  Go prelude, part 2: vocabulary of the translator's imperative style (`FuncSpec.Imperative`, `TypeCases`,
  `LoopStyle "state"`): shifts, slicing, slice windows, map element assignment, loops that thread state or
  collect elements, error values.  Core Lean, total, computable; no model types.
-/
import OidcModel.Go

namespace GoX

/-- `a << b` on (unbounded) integers -/
def shl (a b : Int) : Int := a * (2 : Int) ^ b.toNat

/-- `x[:n]` / `x[n:]` (Go panics when `n` is out of range; the translated functions guard the length first) -/
def sliceTo {α : Type} (x : List α) (n : Int) : List α := x.take n.toNat
def sliceFrom {α : Type} (x : List α) (n : Int) : List α := x.drop n.toNat
/-- what `x` holds after a callee wrote `v` through the window `x[:n]` -/
def setSliceTo {α : Type} (x : List α) (_n : Int) (v : List α) : List α := v ++ x.drop v.length
/-- what `x` holds after a callee wrote `v` through the window `x[n:]` -/
def setSliceFrom {α : Type} (x : List α) (n : Int) (v : List α) : List α := x.take n.toNat ++ v
/-- `make([]byte, n)` -/
def zeros (n : Int) : List UInt8 := List.replicate n.toNat 0

/-- `m[k] = v` on a map kept as an association list with unique keys -/
def mapSet {κ ν : Type} [BEq κ] (m : List (κ × ν)) (k : κ) (v : ν) : List (κ × ν) :=
  if m.any (·.1 == k) then m.map (fun kv => if kv.1 == k then (k, v) else kv) else m ++ [(k, v)]

/-- `for _, v := range l { body }` where the body updates the variables `σ` of the enclosing function -/
def foldList {α σ : Type} (l : List α) (init : σ) (f : σ → α → σ) : σ := l.foldl f init
/-- `for k, v := range m { body }` over a map (association list), state threaded as above -/
def foldKV {κ ν σ : Type} (m : List (κ × ν)) (init : σ) (f : σ → κ → ν → σ) : σ := m.foldl (fun s kv => f s kv.1 kv.2) init

/-- `for _, v := range l { body }` where the body either returns (`some r`) or falls through (`none`) -/
def first {α β : Type} (l : List α) (f : α → Option β) : Option β :=
  match l with
  | [] => none
  | x :: xs =>
    match f x with
    | some r => some r
    | none => first xs f

/-- `out := make([]T, len(l)); for i, v := range l { ..; out[i] = e }` where the body may return (`.inl r`)
    before it yields the element (`.inr e`) -/
def collect {α β γ : Type} (l : List α) (f : α → Sum β γ) : Sum β (List γ) :=
  match l with
  | [] => .inr []
  | x :: xs =>
    match f x with
    | .inl r => .inl r
    | .inr e =>
      match collect xs f with
      | .inl r => .inl r
      | .inr es => .inr (e :: es)

/-- `errors.As(err, &target)` with `var target T`: errors are the names of their sentinel / dynamic type, so an
    error whose chain holds a value of Go type `T` is the string `T` -/
def errorsAs (err : String) (ty : String) : Bool := err == ty

/-- the same on the unchecked RESULT of a call (`err := f(..)` used before any nil check): `errors.As(nil, ..)` is false -/
def errorsAsR (r : Go.R Unit) (ty : String) : Bool :=
  match r with
  | .ok _ => false
  | .error e => errorsAs e ty
/-- `return err` for such a result in a function whose effect is the final value `v` of its pointer parameter -/
def retErr {α : Type} (r : Go.R Unit) (v : α) : Go.R α :=
  match r with
  | .ok _ => .ok v
  | .error e => .error e

/-- error VALUES (FuncSpec.ErrValues): `nil` is `none` -/
def errIsNil (e : Option String) : Bool := e.isNone
def errNotNil (e : Option String) : Bool := e.isSome

end GoX
