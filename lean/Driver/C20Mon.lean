import Driver.Kv
import OidcModel.Spec.C20
open Kv

/-! C20 driver, monitor part: imports the Spec only (never `Generated`), so it builds whatever the source looks like. -/
namespace Drv.C20

def obsOf (l : Line) : _root_.C20.Obs :=
  { globalsChanged := list l "g.changed", suppliedChanged := list l "s.changed", behaviourChanged := list l "b.changed",
    othersChanged := list l "o.changed", instanceBehaviourChanged := list l "ib.changed", races := nat l "races", panicked := bool l "panic" }

def monStr (l : Line) : String :=
  match _root_.C20.monitor (obsOf l) with
  | none => "ok"
  | some c => "VIOLATED:" ++ c

def join (xs : List String) : String := if xs.isEmpty then "-" else ",".intercalate xs

def obsStr (l : Line) : String :=
  let o := obsOf l
  match str l "kind" with
  | "inventory" => "covered:" ++ toString (list l "covered").length
  | "facts" => "facts"
  | "race" => "race:" ++ esc (str l "race.w") ++ "~" ++ esc (str l "race.o")
  | "mix" => "reports:" ++ toString (nat l "reports")
  | _ => "g:" ++ esc (join o.globalsChanged) ++ ";s:" ++ esc (join o.suppliedChanged) ++ ";b:" ++ esc (join o.behaviourChanged) ++
         ";o:" ++ toString o.othersChanged.length ++ ";ib:" ++ esc (join o.instanceBehaviourChanged)

def classOf (l : Line) : String :=
  match str l "kind" with
  | "inventory" => "inventory"
  | "facts" => "facts"
  | "race" => "race:" ++ esc (str l "mix")
  | "mix" => "mix:" ++ esc (str l "mix")
  | k => k ++ ":" ++ esc (str l "entry")

/-- monitor only (no model): used when the regenerated model does not build -/
def stepMon (l : Line) : String :=
  "case=" ++ str l "case" ++ " class=" ++ classOf l ++ " model=- observed=" ++ obsStr l ++ " monitor=" ++ monStr l ++ " agree=1"

end Drv.C20
