import Driver.Kv
import OidcModel.Spec.C11
open Kv

/-! C11 monitor driver: parses one harness line into the monitor's input and the OBSERVED response.
    Imports the Spec only. -/
namespace Drv.C11

def hexByte (a b : Char) : UInt8 := UInt8.ofNat ((hexVal a).getD 0 * 16 + (hexVal b).getD 0)
def hexBytes : List Char → List UInt8
  | a :: b :: rest => hexByte a b :: hexBytes rest
  | _ => []
def bytesOf (l : Line) (k : String) : List UInt8 := hexBytes ((raw l k).getD "").toList

/-- `p=name,hexvalue,name,hexvalue,` -/
def pairsOf : List String → List (UA.Bytes × UA.Bytes)
  | k :: v :: rest => (k.toUTF8.toList, hexBytes v.toList) :: pairsOf rest
  | _ => []

def asciiBytes (cs : List Char) : List UInt8 := (String.ofList cs).toUTF8.toList

/-- `ua=T:tag,A:name=hexvalue,…` : the start tags golang.org/x/net/html reported -/
def uaTags (items : List String) : List UA.Tag :=
  let rec go (items : List String) (cur : Option UA.Tag) (acc : List UA.Tag) : List UA.Tag :=
    match items with
    | [] => (match cur with | some t => (t :: acc) | none => acc).reverse
    | it :: rest =>
      match it.toList with
      | 'T' :: ':' :: nm =>
        let acc := match cur with | some t => t :: acc | none => acc
        go rest (some { name := asciiBytes nm, attrs := [] }) acc
      | 'A' :: ':' :: body =>
        let k := body.takeWhile (· != '=')
        let v := body.drop (k.length + 1)
        match cur with
        | some t => go rest (some { t with attrs := t.attrs ++ [(asciiBytes k, hexBytes v)] }) acc
        | none => go rest cur acc
      | _ => go rest cur acc
  go items none []

/-- `src.*`: where state and error text come from (cases that went through the HTTP handlers with tracing) -/
def parseSource (l : Line) : Option C11.Source :=
  if !bool l "src" then none else
  some { statePlain := bytesOf l "src.st.plain", stateRO := bytesOf l "src.st.ro", roHonoured := bool l "src.ro.honoured",
         desc := if bool l "src.desc.traced" then some (bytesOf l "src.desc") else none,
         code := if bool l "src.desc.traced" then some (str l "src.code").toUTF8.toList else none }

def parseInput (l : Line) : C11.Input :=
  { uri := bytesOf l "uri", uriOK := bool l "u.ok", mode := str l "mode", rtype := str l "rtype", isError := bool l "err",
    params := pairsOf (list l "p"), source := parseSource l }

def parseObserved (l : Line) : C11.Observed :=
  match str l "obs" with
  | "redirect" => .redirect (bytesOf l "o.loc")
  | "form" => .form (bytesOf l "o.body") (uaTags (list l "ua"))
  | "refused" => .refused
  | "partial" => .cutOff (bytesOf l "o.body") (uaTags (list l "ua"))
  | _ => .panic

def monitorLine (l : Line) : Option String := C11.monitor (parseInput l) (parseObserved l)

def showMon (m : Option String) : String :=
  match m with
  | none => "ok"
  | some c => "VIOLATED:" ++ c

/-- short input class: kind / response kind / mode / URI shape / what was observed -/
def classOf (l : Line) : String :=
  let src := if bool l "src" then s!":{str l "src.router"}:{str l "src.channel"}:{str l "src.outcome"}:{str l "src.err.kind"}:{str l "src.err.class"}" else ""
  -- the length dimension (c11len.go): which parameter sits at which boundary, how (raw / encoded length, straddling character)
  let len := if has l "len.b" then s!":len:{str l "len.param"}:{str l "len.b"}:{str l "len.shape"}{if has l "len.err" then ":" ++ str l "len.err" else ""}" else ""
  s!"{str l "kind"}:{str l "sub"}:{if str l "mode" == "" then "default" else str l "mode"}:{str l "shape"}:{str l "obs"}{src}{len}"

def stepMon (l : Line) : String :=
  s!"case={str l "case"} class={classOf l} model=- observed={str l "obs"} monitor={showMon (monitorLine l)} agree=1"

end Drv.C11
