import Driver.Common
import OidcModel.Spec.C01
open Kv Drv

namespace Drv.C01

/-- monitor on the OBSERVED answer, at both ends of the call's clock bracket: a violation is reported
    only if it is one at both ends (every time clause is monotone in `now`). -/
def monitorLine (l : Line) : Option String :=
  let v := parseVerifier l
  let t := parseToken l
  let withAT := opt l "at"
  if str l "obs" == "panic" then some "panic" else
  -- (relying-party mode) an option returned an error: no relying party came about, no token was verified
  if str l "o.err" == "construct" then none else
  let obs : Option Claims := if str l "obs" == "ok" then some (parseClaims l "o.") else none
  let mon0 := C01.monitor v t withAT (int l "now0") obs
  let mon1 := C01.monitor v t withAT (int l "now1") obs
  if mon0.isSome && mon1.isSome then mon0 else none

def obsString (l : Line) : String :=
  if str l "obs" == "ok" then "ok" else if str l "obs" == "panic" then "panic"
  else if str l "obs" == "noclaims" then "noclaims"   -- tokens came back without ID Token claims (OAuth-only relying party)
  else "err:" ++ str l "o.err"

def stepMon (l : Line) : String :=
  s!"case={str l "case"} model=- observed={obsString l} monitor={showMon (monitorLine l)} agree=1"

end Drv.C01
