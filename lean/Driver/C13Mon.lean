import Driver.Common
import OidcModel.Spec.C13
open Kv Drv Jwks

/-
  C13 line: `C13 case=<id> skip=<0|1> ns=<K> s0=<step> … s<K-1>=<step>`; a step is
    rot:<keys>:                      keys = kid.use.keyNo.kty.known joined by '/', '-' = empty
    start:<c>:<kid>:<alg>:<signer>:<pid>:<obs>       (startd:… = the same, the call's context carries a DEADLINE: context.WithDeadline)
    expire:<c>:<obs>                 the harness has seen the deadline of call <c>'s context pass (ctx.Done() closed, DeadlineExceeded)
    go:<c>:<obs> | cancel:<c>:<obs> | resp:<f>:<body class>:<status>:<wf 0|1>:<whole keys|!>:<first keys|!>:<obs> | upd:<f>:<obs> | stuck:: | crash::
  <obs> = what was observed while the step ran, joined by '/':
    h.c<c>.<point> | h.u<f>.<point> | g.u<f>.c<owner> (request reaches the endpoint) | x.u<f> (request aborted by
    its context) | fin.c<c>.<outcome class>
-/
namespace Drv.C13

structure Step where
  kind : String
  id : Nat := 0
  tok : JWS := default
  keys : List ServedKey := []
  ans : Answer := {}
  cls : String := ""
  obs : List String := []
  deriving Inhabited

def dash (s : String) : String := if s == "-" then "" else s

def parseServed (s : String) : List ServedKey :=
  if s == "" then [] else
  (s.splitOn "/").map fun e =>
    match e.splitOn "." with
    | [kid, use, no, kty, known] =>
      { jwk := { KeyID := dash kid, Use := dash use, kty := parseKty kty, keyNo := no.toNat?.getD 0 }, known := known == "1" }
    | _ => { jwk := default, known := false }

def mkTok (kid alg : String) (signer pid : Nat) : JWS :=
  let h : JHeader := { Algorithm := alg, KeyID := dash kid }
  { Signatures := [{ Header := h, signer := some signer, signedAlg := alg, signedBytes := pid, signedHdr := h }],
    payload := { bytes := pid, claims := none } }

def obsOf (s : String) : List String := if s == "" then [] else s.splitOn "/"

def parseStep (s : String) : Step :=
  match s.splitOn ":" with
  | ["rot", keys, _] => { kind := "rot", keys := parseServed keys }
  | ["start", c, kid, alg, signer, pid, obs] =>
    { kind := "start", id := c.toNat?.getD 0, tok := mkTok kid alg (signer.toNat?.getD 0) (pid.toNat?.getD 0), obs := obsOf obs }
  | ["startd", c, kid, alg, signer, pid, obs] =>
    { kind := "start", id := c.toNat?.getD 0, tok := mkTok kid alg (signer.toNat?.getD 0) (pid.toNat?.getD 0), obs := obsOf obs, cls := "deadline" }
  | ["expire", c, obs] => { kind := "expire", id := c.toNat?.getD 0, obs := obsOf obs }
  | ["go", c, obs] => { kind := "go", id := c.toNat?.getD 0, obs := obsOf obs }
  | ["cancel", c, obs] => { kind := "cancel", id := c.toNat?.getD 0, obs := obsOf obs }
  | ["resp", f, cls, st, wf, whole, first, obs] =>
    let ks (t : String) : Option (List ServedKey) := if t == "!" then none else some (parseServed t)
    { kind := "resp", id := f.toNat?.getD 0, cls := cls,
      ans := { status200 := st == "200", wellFormed := wf == "1", whole := ks whole, first := ks first }, obs := obsOf obs }
  | ["upd", f, obs] => { kind := "upd", id := f.toNat?.getD 0, obs := obsOf obs }
  | ["stuck", _, _] => { kind := "stuck" }
  | ["crash", _, _] => { kind := "crash" }
  | _ => { kind := "bad" }

def parseSteps (l : Line) : List Step :=
  (List.range (nat l "ns")).map fun i => parseStep (str l ("s" ++ toString i))

def numAfter (s : String) (n : Nat) : Nat := (String.ofList (s.toList.drop n)).toNat?.getD 0

def outcomeOf (cls : String) (pid : Nat) : Outcome :=
  match cls with
  | "ok" => .payload pid
  | "okwrong" => .payload 0
  | "nokey" => .noKey
  | "badsig" => .badSig
  | "ctx" => .ctxErr
  | "ctxdl" => .ctxErr                    -- the call's own context error is `context deadline exceeded`
  | "fe-deadline" => .fetchErr .cancelled -- the download it waited for ended with its context's deadline (`context deadline exceeded`)
  | "fe-5xx" => .fetchErr .http5xx
  | "fe-json" => .fetchErr .badJson
  | "fe-cancel" => .fetchErr .cancelled
  | "panic" => .panic
  | "stuck" => .stuck
  | _ => .other

/-- one observed token -> observation (`toks` = the token of each started call) -/
def obsTok (toks : List (Nat × JWS)) (t : String) : List Obs :=
  match t.splitOn "." with
  | ["h", p, name] =>
    if p.startsWith "c" then [.point (.caller (numAfter p 1)) name]
    else if name == "done" then [.announce (numAfter p 1)]
    else if name == "published" then [.retire (numAfter p 1)]
    else [.point (.updater (numAfter p 1)) name]
  | ["g", u, c] => [.fetchBegin (numAfter u 1) (numAfter c 1)]
  | ["x", u] => [.fetchEnd (numAfter u 1) none]
  | ["fin", c, cls] =>
    let cid := numAfter c 1
    let pid := match toks.find? (·.1 == cid) with
      | some (_, j) => j.payload.bytes
      | none => 0
    [.finish cid (outcomeOf cls pid)]
  | _ => []

/-- calls that a step's observations show parked at the schedule point in front of `keysFromRemote`'s critical section -/
def reachedLock (obs : List String) : List Nat :=
  obs.filterMap fun t =>
    match t.splitOn "." with
    | ["h", p, "lock"] => if p.startsWith "c" then some (numAfter p 1) else none
    | _ => none

/-- the observations of the steps, given the calls currently parked in front of `keysFromRemote`: releasing such a call (`go`) is
    the instant it turns to the endpoint (`ask`) -/
def obsFrom (toks : List (Nat × JWS)) : List Nat → List Step → List Obs
  | _, [] => []
  | atLock, s :: rest =>
    let tail := s.obs.flatMap (obsTok toks)
    let here : List Obs := match s.kind with
      | "rot" => [Obs.rotate s.keys]
      | "start" => Obs.start s.id s.tok :: tail
      | "cancel" => Obs.cancel s.id :: tail
      | "expire" => Obs.expire s.id :: tail
      | "resp" => Obs.fetchEnd s.id (some s.ans) :: tail
      | "go" => if atLock.contains s.id then Obs.ask s.id :: tail else tail
      | _ => tail
    let atLock' := (if s.kind == "go" then atLock.filter (· != s.id) else atLock) ++ reachedLock s.obs
    here ++ obsFrom toks atLock' rest

/-- the observed run of a line -/
def observations (steps : List Step) : List Obs :=
  let toks := steps.filterMap fun s => if s.kind == "start" then some (s.id, s.tok) else none
  obsFrom toks [] steps

def outcomesText (steps : List Step) : String :=
  let fins := steps.flatMap fun s => s.obs.filter (·.startsWith "fin.")
  if fins.isEmpty then "none" else "+".intercalate (fins.map fun f => String.ofList (f.toList.drop 4))

/-- shape of the schedule: calls, downloads, and which kinds of events it contains -/
def classOf (steps : List Step) : String :=
  let n := (steps.filter (·.kind == "start")).length
  let obs := steps.flatMap (·.obs)
  let f := (obs.filter (·.startsWith "g.")).length
  let flag (b : Bool) (s : String) := if b then s else ""
  let rots := (steps.filter (·.kind == "rot")).length
  s!"n{n}f{f}" ++ flag (rots > 1) "R" ++ flag (steps.any (·.kind == "cancel")) "X" ++ flag (steps.any (·.kind == "expire")) "D"
    ++ flag (steps.any fun s => s.kind == "resp" && (endOf (some s.ans)).1 != .ok) "E"
    ++ flag (steps.any fun s => s.kind == "resp" && !s.ans.wellFormed && s.ans.first.isSome) "P" ++ flag (obs.any (·.startsWith "x.")) "A"
    ++ flag (obs.any (· |>.endsWith ".ok")) "+" ++ flag (obs.any fun o => o.endsWith ".nokey" || o.endsWith ".badsig") "-"

/-- the unscheduled race-detector soak of the thorough tier (supporting evidence): no race report, no oracle failure -/
def soakVerdict (l : Line) : Option String :=
  if !(bool l "built") then some "soak-binary-does-not-build"
  else if !(bool l "ran") then some "soak-did-not-run"
  else if nat l "races" > 0 then some "soak-data-race"
  else if nat l "bad" > 0 then some "soak-oracle" else none

def monitorLine (l : Line) : Option String :=
  if has l "soak" then soakVerdict l else
  let steps := parseSteps l
  if steps.any (·.kind == "bad") then some "malformed-line" else
  match C13.monitor (bool l "skip") (observations steps) with
  | some c => some c
  | none =>
    if steps.any (·.kind == "crash") then some "panic"        -- the process died in a goroutine of the library
    else if steps.any (·.kind == "stuck") then some "stuck" else none

def stepMon (l : Line) : String :=
  if has l "soak" then s!"case=soak class=soak model=- observed=calls{nat l "calls"} monitor={showMon (monitorLine l)} agree=1" else
  let steps := parseSteps l
  s!"case={str l "case"} class={classOf steps} model=- observed={outcomesText steps} monitor={showMon (monitorLine l)} agree=1"

end Drv.C13
