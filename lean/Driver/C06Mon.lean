import Driver.Common
import OidcModel.Spec.C06
open Kv Drv

namespace Drv.C06

def boolD (l : Line) (k : String) (d : Bool) : Bool := if has l k then bool l k else d

def reqOf (l : Line) : _root_.C06.Req :=
  { issuer := str l "r.iss", client := str l "r.client", subject := str l "r.sub", nonce := str l "r.nonce", authTime := int l "r.authtime",
    amr := list l "r.amr", scopes := list l "r.scopes", lifetime := int l "r.lifetime", skew := int l "r.skew",
    assertUserinfo := bool l "r.assert", withAccessToken := bool l "r.withat",
    -- the granted scopes as the client's registration restricts them per token kind (absent on old lines: no restriction)
    idScopes := if has l "r.idscopes" then list l "r.idscopes" else list l "r.scopes",
    atScopes := if has l "r.atscopes" then list l "r.atscopes" else list l "r.scopes",
    storageFillsID := bool l "r.fillsid", storageFillsAT := bool l "r.fillsat",
    curKey := if has l "k.cur" then int l "k.cur" else -1, curAlg := str l "k.alg",
    alsoCur := (list l "k.also").filterMap fun e =>
      match e.splitOn "/" with
      | [no, alg] => no.toInt?.map (·, alg)
      | _ => none }

def obsOf (l : Line) : _root_.C06.Obs :=
  { flow := str l "flow", hasIDToken := bool l "o.idtoken", rpVerifies := bool l "o.rpverifies", idClaims := parseClaims l "c.", amr := list l "o.amr",
    cHashOK := boolD l "o.chash" true, atHashOK := boolD l "o.athash" true, userClaims := list l "o.userclaims", jwtAccessToken := bool l "o.jwtat", atVerifies := boolD l "o.atverifies" true,
    atClaims := { iss := str l "a.iss", sub := str l "a.sub" }, opaqueOK := boolD l "o.opaque" true, expiresInOK := boolD l "o.expiresin" true,
    scopeOK := boolD l "o.scope" true, atUserClaims := list l "o.atuserclaims",
    idSigner := if has l "o.idsigner" then int l "o.idsigner" else -1, idAlg := str l "o.idalg",
    atSigner := if has l "o.atsigner" then int l "o.atsigner" else -1, atAlg := str l "o.atalg" }

def monitorLine (l : Line) : Option String :=
  if str l "obs" != "tokens" then none else
  let r := reqOf l
  -- auth_time of an exchange is set by the framework itself (request time): not compared
  let r := if r.authTime == -1 then { r with authTime := (obsOf l).idClaims.authTime + r.skew } else r
  _root_.C06.judge r (obsOf l)

/-- the class of a case: flow, algorithm, outcome, token kind, restriction; for a step of a history with key changes also its event -/
def classOf (l : Line) : String :=
  let ev := str l "h.ev"
  let hist := if ev == "" || (ev == "none" && int l "h.steps" ≤ 1) then "" else s!":hist{int l "h.nprov"}:{ev}:{str l "h.when"}"
  s!"{str l "flow"}:{str l "alg"}:{str l "obs"}:{if bool l "o.jwtat" then "jwt" else "opaque"}:{str l "restrict"}{hist}"

def step (l : Line) : String :=
  s!"case={str l "case"} class={classOf l} model=- observed={str l "obs"} monitor={showMon (monitorLine l)} agree=1"

end Drv.C06
