/-
  deep4-C07: model side of the refresh lines with a storage fault (`fault.at`) and of concurrent pairs (`conc`):
  Model/C07Fault.lean (`refreshFaultStep`, `stepPair`).
-/
import Driver.C07FaultMon
import Driver.C07Wire
import OidcModel.Model.C07Fault
open Kv Drv

namespace Drv.Wire

def rfaultOfLine (l : Line) : _root_.Flow.RFault :=
  let at' := str l "fault.at"
  if at' == "createTokens" then .createTokens
  else if at'.startsWith "in:" then .issuing (String.ofList (at'.toList.drop 3))
  else .validation (String.ofList (at'.toList.drop 11))

def isValidationFault (l : Line) : Bool := (str l "fault.at").startsWith "validation:"

def showOutF (l : Line) (o : _root_.Flow.OutF) : String :=
  match o with
  | .x (.base (.error e)) => if isValidationFault l then "err:~" else "err:" ++ _root_.Flow.oauthCode e
  | .x o => showOutX o
  | .hollow _ nr => "hollow:" ++ nr.getD "-"

/-- what the implementation answered: a 200 without access token is not an error document -/
def showObsF (l : Line) : String :=
  if int l "o.http" == 200 && str l "obs" == "err" then "hollow:" ++ (if has l "o.b.rt" then str l "o.b.rt" else "-")
  else if isValidationFault l && str l "obs" == "err" then "err:~"
  else showObsX l

/-- the second request of a concurrent pair (keys `c2.*` of the pair's first line) -/
def parseWire2 (l : Line) : WireReq :=
  { body := (list l "c2.w.body").map splitItem, query := [],
    basic := if str l "c2.auth" == "basic" then some (str l "c2.cid", str l "c2.secret") else none }

def modelFault (now : Int) (st : _root_.Flow.St) (rt : _root_.Flow.Router) (l : Line) : _root_.Flow.St × String :=
  let (s, o) := _root_.Flow.refreshFaultStep now st rt (parseWire l) (rfaultOfLine l)
  (s, showOutF l o)

/-- a concurrent pair: new state, the model's answer to this (first finished) request, its answer to the other one -/
def modelPair (now : Int) (st : _root_.Flow.St) (rt : _root_.Flow.Router) (l : Line) : _root_.Flow.St × String × String :=
  let sched := (list l "conc.sched").map (· == "A")
  let (s, oA, oB, order) := _root_.Flow.stepPair now st rt (parseWire l) (parseWire2 l) sched
  (s, showOutF l oA ++ (if order.head? == some true then "" else "!order"), showOutF l oB)

end Drv.Wire
