import Driver.C01Mon
import OidcModel.Generated.RPVerifier
open Kv Drv

namespace Drv.C01

def run (v : Verifier) (t : Token) (withAT : Option String) (now : Int) : Go.R Claims :=
  match withAT with
  | none => Gen.VerifyIDToken now t v
  | some atk => Gen.VerifyTokens now atk t v

def step (l : Line) : String :=
  let v := parseVerifier l
  let t := parseToken l
  let withAT := opt l "at"
  let m0 := run v t withAT (int l "now0")
  let m1 := run v t withAT (int l "now1")
  let obs : Option Claims := if str l "obs" == "ok" then some (parseClaims l "o.") else none
  let obsS := obsString l
  let stable := showR m0 == showR m1
  let modelS := if stable then showR m0 else "unstable"
  let agree := !stable || (modelS == obsS &&
    (match m0, obs with
     | .ok c, some o => c == o
     | _, _ => true))
  s!"case={str l "case"} model={modelS} observed={obsS} monitor={showMon (monitorLine l)} agree={if agree then 1 else 0}"

end Drv.C01
