import Driver.C01Mon
import OidcModel.Generated.RPVerifier
import OidcModel.Model.RPConstructGen
import OidcModel.Spec.C01Time
import OidcModel.Generated.C01Time
open Kv Drv

namespace Drv.C01

def run (v : Verifier) (t : Token) (withAT : Option String) (now : Int) : Go.R Claims :=
  match withAT with
  | none => Gen.VerifyIDToken now t v
  | some atk => Gen.VerifyTokens now atk t v

/-! ### relying-party mode: the verifier is rebuilt from the option lists with the REGENERATED constructors -/

/-- `oidc.DefaultACRVerifier([]string{"gold", "silver"})`, regenerated -/
def acrList : Option (String → Go.R Unit) := some (GenC01.DefaultACRVerifier 0 ["gold", "silver"])

/-- one `rp.VerifierOption` (`vo.<k>.<j>`, value under `.v`), described -/
def parseVOpt (l : Line) (p : String) : C01.VOptD :=
  match str l p with
  | "off" => .offset (int l (p ++ ".v"))
  | "maxiat" => .iatMaxAge (int l (p ++ ".v"))
  | "maxage" => .authMaxAge (int l (p ++ ".v"))
  | "nonce" => .nonce (if str l (p ++ ".v") == "nil" then none else some fun _ => "n-123")
  | "acr" => .acr (if str l (p ++ ".v") == "nil" then none else acrList)
  | _ => .algs (list l (p ++ ".v"))

def parseVOpts (l : Line) (k : Nat) : List C01.VOptD :=
  let p := "vo." ++ toString k ++ "."
  (List.range (nat l (p ++ "n"))).map fun j => parseVOpt l (p ++ toString j)

/-- one `rp.Option` (`rp.<i>`), described -/
def parseROpt (l : Line) (i : Nat) : C01.ROptD :=
  let p := "rp." ++ toString i
  match str l p with
  | "vopts" => .verifierOpts (parseVOpts l (nat l (p ++ ".v")))
  | "algsdisc" => .signingAlgsFromDiscovery
  | "http" => .httpClient 1
  | "discurl" => .customDiscoveryUrl (str l "disc.iss" ++ "/custom/discovery")
  | "pkce" => .pkce (some 1)
  | "cookie" => .cookieHandler (some 2)
  | "authstyle" => .authStyle 1
  | "errh" => .errorHandler (some 1)
  | "unauth" => .unauthorizedHandler (some 1)
  | "logger" => .logger none
  | "jwterr" => .jwtProfile (.error "no key")
  | _ => .jwtProfile (.ok 0)

/-- the fake provider: its discovery document (at the default and at the custom URL) and its JWKS -/
def world (l : Line) : RPCWorld :=
  -- `disc.marked`: the provider answers the application's own http client (number 1) only
  let admitted := fun (c : RPCHttpClient) => !(bool l "disc.marked") || c == 1
  { discover := fun iss c url =>
      if admitted c && (url == "" || url == str l "disc.iss" ++ "/custom/discovery") then
        .ok { Issuer := iss, AuthorizationEndpoint := iss ++ "/authorize", TokenEndpoint := iss ++ "/token", JwksURI := str l "disc.jwks",
              IDTokenSigningAlgValuesSupported := list l "disc.algs" }
      else .error "ErrDiscoveryFailed",
    jwks := fun c url => if admitted c && url == str l "disc.jwks" then parseKeySet l "ks." else { kind := .published, keys := [] } }

/-- do two verifiers ask for the same thing? (functions compared on the values the stream uses) -/
def sameConfig (a b : Verifier) : Bool :=
  a.Issuer == b.Issuer && a.ClientID == b.ClientID && a.Offset == b.Offset && a.MaxAgeIAT == b.MaxAgeIAT && a.MaxAge == b.MaxAge &&
  a.SupportedSignAlgs == b.SupportedSignAlgs && a.Nonce == b.Nonce && a.KeySet == b.KeySet &&
  (match a.ACR, b.ACR with
   | none, none => true
   | some f, some g => ["gold", "silver", "bronze", ""].all fun x => (f x).toBool == (g x).toBool
   | _, _ => false)

/-- model answer in relying-party mode at instant `now`: (answer, the verifier the relying party hands out) -/
def runRP (l : Line) (t : Token) (withAT : Option String) (now : Int) : Go.R Claims × Option Verifier :=
  let w := world l
  let opts := (List.range (nat l "rp.n")).map (parseROpt l)
  let built :=
    if str l "rp" == "oauth" then
      GenC01.NewRelyingPartyOAuth now
        { ClientID := str l "v.cid", ClientSecret := "secret", RedirectURL := "http://rp.local/callback", Scopes := ["openid"],
          Endpoint := { AuthURL := str l "disc.iss" ++ "/authorize", TokenURL := str l "disc.iss" ++ "/token" } }
        (opts.map (C01.ROptD.denote now))
    else
      GenC01.NewRelyingPartyOIDC now w (str l "v.iss") (str l "v.cid") "secret" "http://rp.local/callback" ["openid"]
        (opts.map (C01.ROptD.denote now))
  match built with
  | .error _ => (.error "construct", none)
  | .ok rp =>
    let (vg, rp) := GenC01.relyingPartyIDTokenVerifier now rp
    let v := (Go.getOpt vg).toVerifier w
    let path := str l "rp.path"
    if path == "vid" || path == "vtok" then (run v t withAT now, some v)
    else
      let resp : RPCOAuthToken := { AccessToken := withAT.getD "", idToken := { is_string := !(bool l "tr.noid"), tok := t } }
      match GenC01.verifyTokenResponse now w resp rp with
      | .error e => (.error e, some v)
      | .ok toks =>
        match toks.IDTokenClaims with
        | some c => (.ok c, some v)
        | none => (.error "noclaims", some v)

/-- the verifier the application asked for according to the property's own definition (Spec/C01Config `rpConfigured`) -/
def specVerifier (l : Line) : Option Verifier :=
  let w := world l
  let opts := (List.range (nat l "rp.n")).map (parseROpt l)
  if str l "rp" == "oauth" then
    -- NewRelyingPartyOAuth: no issuer, no discovery; the verifier options are those of the last WithVerifierOpts
    some ((C01.configured "" (str l "v.cid") (.remote (C01.clientOf opts) "") (C01.lastOf C01.ROptD.vopts? opts [])).toVerifier w)
  else
  match w.discover (str l "v.iss") (C01.clientOf opts) (C01.lastOf C01.ROptD.url? opts "") with
  | .ok d => some ((C01.rpConfigured (str l "v.iss") (str l "v.cid") opts d).toVerifier w)
  | .error _ => none

/-! ### (round 4) the spelled time claims: the REGENERATED `Time.UnmarshalJSON` on what is written -/

/-- the JSON value of a spelled claim as the harness's exact reader saw it (`sp.<claim>.*`) -/
def spelledDoc (l : Line) (p : String) : Cdc.JVal :=
  match str l (p ++ ".doc") with
  | "num" => .num { floor := int l (p ++ ".floor"), frac := bool l (p ++ ".frac") }
  | "str" => .str (str l (p ++ ".raw"))
  | "null" => .null
  | _ => .bool true

/-- for every spelled claim: the regenerated decoder, given the exact value of the document, and the property's `writtenTime`
    both arrive at the harness's own reading (`sp.<claim>.ok`, `.val`), and that reading is the claim the monitor judges by -/
def spelledOK (l : Line) : Bool :=
  [("exp", "c.exp"), ("iat", "c.iat"), ("auth_time", "c.auth"), ("nbf", "")].all fun (k, ck) =>
    let p := "sp." ++ k
    if !has l p then true else
    let doc := spelledDoc l p
    let tp : String → Go.R Int := fun _ => if has l (p ++ ".tp") then .ok (int l (p ++ ".tp")) else .error "time"
    let want : Option Int := if bool l (p ++ ".ok") then some (int l (p ++ ".val")) else none
    (GenC01T.TimeUnmarshalJSON 0 { jsonAny := fun _ => .ok doc, timeParse := tp } 0 (str l (p ++ ".raw"))).toOption == want &&
    C01.writtenTime (fun s => (tp s).toOption) doc == want &&
    (ck == "" || !bool l "t.json" || want == some (int l ck))

/-- the `aud` member as it is written (`au.*`): the regenerated `Audience.UnmarshalJSON` and the property's `writtenAudience`
    both arrive at the harness's own reading, and that reading is the audience the monitor judges by -/
def audOK (l : Line) : Bool :=
  if !has l "au.doc" then true else
  let items := list l "au.v"
  let bad := bool l "au.bad"
  let doc : Cdc.JVal :=
    match str l "au.doc" with
    | "str" => .str (items.headD "")
    | "arr" => .arr (items.map Cdc.JVal.str ++ (if bad then [.num { floor := 5 }] else []))
    | "num" => .num { floor := 5 }
    | _ => .null
  let want : Option (List String) := if bad then none else some (if str l "au.doc" == "str" || str l "au.doc" == "arr" then items else [])
  (GenC01T.AudienceUnmarshalJSON 0 { jsonAny := fun _ => .ok doc } [] "").toOption == want &&
  C01.writtenAudience doc == want &&
  (!bool l "t.json" || want == some (list l "c.aud"))

def showRP (r : Go.R Claims) : String :=
  match r with
  | .error "construct" => "err:construct"
  | .error "noclaims" => "noclaims"
  | r => showR r

def step (l : Line) : String :=
  let v := parseVerifier l
  let t := parseToken l
  let withAT := opt l "at"
  let isRP := str l "rp" == "oidc" || str l "rp" == "oauth"
  let (m0, v0) := if isRP then runRP l t withAT (int l "now0") else (run v t withAT (int l "now0"), none)
  let (m1, _) := if isRP then runRP l t withAT (int l "now1") else (run v t withAT (int l "now1"), none)
  let obs : Option Claims := if str l "obs" == "ok" then some (parseClaims l "o.") else none
  let obsS := obsString l
  let stable := showRP m0 == showRP m1
  let modelS := if stable then showRP m0 else "unstable"
  -- the verifier the regenerated constructors arrive at asks for what the application asked for (`v.*`)
  -- ... and so does the property's definition of the configured verifier (`rpConfigured` on the same option lists)
  let spOK := spelledOK l && audOK l
  let cfgOK := spOK && (match v0 with
    | some vm => sameConfig vm v
    | none => true) &&
    (!isRP || (match specVerifier l with
      | some vs => sameConfig vs v
      | none => false))
  let agree := cfgOK && (!stable || (modelS == obsS &&
    (match m0, obs with
     | .ok c, some o => c == o
     | _, _ => true)))
  s!"case={str l "case"} model={if !spOK then "time-reading-differs" else if cfgOK then modelS else "config-differs"} observed={obsS} monitor={showMon (monitorLine l)} agree={if agree then 1 else 0}"

end Drv.C01
