import Driver.FlowMon
import OidcModel.Spec.C05
import OidcModel.Spec.C05Wire
open Kv Drv

namespace Drv.C05

def cfgOf (l : Line) : _root_.C05.Cfg :=
  { base := { issuer := str l "issuer", clients := Drv.Flow.parseClients l, jwtMaxAgeIAT := 3600 * Go.second, jwtOffset := Go.second },
    post := bool l "post", pkjwt := bool l "pkjwt", refresh := bool l "refresh",
    capCC := bool l "cap.cc", capTE := bool l "cap.te", capDevice := bool l "cap.device" }

/-- ordered pairs `<p>0.k`/`<p>0.v` … of a `url.Values` -/
def valuesOf (l : Line) (p : String) : EPValues :=
  { kv := (List.range (nat l (p ++ "n"))).map fun i => (str l (p ++ toString i ++ ".k"), str l (p ++ toString i ++ ".v")) }

/-- the abstract request of the line -/
def requestOf (l : Line) : EPRequest :=
  { basic := if bool l "basic" then some (str l "b.user", str l "b.pass") else none,
    Form := valuesOf l "f.", PostForm := valuesOf l "pf.", parseErr := bool l "parse.err" }

/-- the answers the libraries gave for THIS request: url.QueryUnescape of the two Basic components, the parsers on the one assertion -/
def oraclesOf (l : Line) : EPOracles :=
  let u := str l "b.user"
  let p := str l "b.pass"
  let ur : Go.R String := if bool l "b.user.ok" then .ok (str l "b.user.un") else .error "invalid URL escape"
  let pr : Go.R String := if bool l "b.pass.ok" then .ok (str l "b.pass.un") else .error "invalid URL escape"
  let hasB := bool l "basic"
  let tokStr := str l "tok.str"
  let tok := parseToken l
  let junk : Token := { segs := 1, middle := none, jws := none }
  { unescape := fun s => if hasB && s == u then ur else if hasB && s == p then pr else .ok s,
    tokenOf := fun s => if has l "tok.str" && s == tokStr then tok else junk }

/-- the Authorization header of the request as sent (round 4; older lines do not carry it) -/
def hdrOf (l : Line) : Option String := if bool l "hdr.set" then some (str l "hdr") else none

def unhex (s : String) : List UInt8 :=
  let rec go : List Char → List UInt8
    | a :: b :: rest =>
      match _root_.C05.Wire.hexVal (UInt8.ofNat a.toNat), _root_.C05.Wire.hexVal (UInt8.ofNat b.toNat) with
      | some x, some y => UInt8.ofNat (x * 16 + y) :: go rest
      | _, _ => go rest
    | _ => []
  go s.toList

/-- does the monitor's own reading of the header bytes (Spec/C05Wire.lean) agree with what net/http's `r.BasicAuth()` and
    `url.QueryUnescape` reported for this request (hex fields `w.*`)? -/
def wireAgrees (l : Line) : Bool :=
  if !has l "hdr.set" then true else
  let mine := (hdrOf l).bind _root_.C05.Wire.basicOfHeader
  let theirs : Option (List UInt8 × List UInt8) := if bool l "basic" then some (unhex (str l "w.u"), unhex (str l "w.p")) else none
  mine == theirs &&
    (match mine with
     | some (u, p) =>
       _root_.C05.Wire.queryUnescape u == (if has l "w.uu" then some (unhex (str l "w.uu")) else none) &&
       _root_.C05.Wire.queryUnescape p == (if has l "w.pu" then some (unhex (str l "w.pu")) else none)
     | none => true)

/-- the credentials of the request: read off the wire when the line carries the header, else from the oracle answers -/
def credsLine (l : Line) : _root_.C05.Creds :=
  if has l "hdr.set" then _root_.C05.Wire.credsOfWire (oraclesOf l).tokenOf (hdrOf l) (requestOf l).Form
  else _root_.C05.credsOf (oraclesOf l) (requestOf l)

def endpointOf (l : Line) : _root_.C05.Endpoint :=
  match str l "endpoint" with
  | "introspect" => .introspect
  | "revoke" => .revoke
  | "device_authorization" => .deviceAuthorization
  | _ => .token (_root_.C05.grantOf (requestOf l))

def obsOf (l : Line) : _root_.C05.Obs :=
  { status := nat l "o.status", success := bool l "o.success", errorDoc := bool l "o.errdoc", actor := str l "o.actor" }

def monitorLine (l : Line) : Option String :=
  if str l "obs" == "panic" then some "panic" else
  let c := cfgOf l
  let k := credsLine l
  if bool l "o.orphan" then some "tokens-created-on-refused-request" else
  let v0 := _root_.C05.judge c (int l "now0") (endpointOf l) k (obsOf l)
  let v1 := _root_.C05.judge c (int l "now1") (endpointOf l) k (obsOf l)
  if v0.isSome && v1.isSome then v0 else none

def shortGrant (g : String) : String := if g == "" then "none" else g.replace "urn:ietf:params:oauth:grant-type:" ""

def obsString (l : Line) : String :=
  if str l "obs" == "panic" then "panic"
  else if bool l "o.success" then "success:" ++ str l "o.actor"
  else "refused:" ++ toString (nat l "o.status") ++ ":" ++ str l "o.err"

def classOf (l : Line) : String :=
  let g := match endpointOf l with | .token g => ":" ++ shortGrant g | _ => ""
  s!"{str l "router"}:{str l "endpoint"}{g}:{str l "pres"}:{if bool l "o.success" then "success" else "refused:" ++ str l "o.err"}"

def step (l : Line) : String :=
  s!"case={str l "case"} class={classOf l} model=- observed={obsString l} monitor={showMon (monitorLine l)} agree={if wireAgrees l then 1 else 0}"

end Drv.C05
