import Driver.FlowMon
import OidcModel.Spec.C05
open Kv Drv

namespace Drv.C05

def cfgOf (l : Line) : _root_.C05.Cfg :=
  { base := { issuer := str l "issuer", clients := Drv.Flow.parseClients l, jwtMaxAgeIAT := 3600 * Go.second, jwtOffset := Go.second },
    post := bool l "post", pkjwt := bool l "pkjwt", refresh := bool l "refresh",
    capCC := bool l "cap.cc", capTE := bool l "cap.te", capDevice := bool l "cap.device" }

def endpointOf (l : Line) : _root_.C05.Endpoint :=
  match str l "endpoint" with
  | "introspect" => .introspect
  | "revoke" => .revoke
  | "device_authorization" => .deviceAuthorization
  | _ => .token (str l "grant")

def monitorLine (l : Line) : Option String :=
  if str l "obs" == "panic" then some "panic" else
  let c := cfgOf l
  let p : _root_.C04.Presented :=
    { clientID := str l "cid", secret := str l "secret", assertion := if str l "auth" == "assertion" then some (parseToken l) else none }
  let o : _root_.C05.Obs := { status := nat l "o.status", success := bool l "o.success", errorDoc := bool l "o.errdoc" }
  if bool l "o.orphan" then some "tokens-created-on-refused-request" else
  let v0 := _root_.C05.judge c (int l "now0") (endpointOf l) p (str l "auth" == "post") o
  let v1 := _root_.C05.judge c (int l "now1") (endpointOf l) p (str l "auth" == "post") o
  if v0.isSome && v1.isSome then v0 else none

def step (l : Line) : String :=
  let cls := s!"{str l "endpoint"}:{(str l "grant").replace "urn:ietf:params:oauth:grant-type:" ""}:{if bool l "o.success" then "success" else "refused:" ++ str l "o.err"}"
  s!"case={str l "case"} class={cls} model=- observed={if bool l "o.success" then "success" else "refused:" ++ str l "o.err"} monitor={showMon (monitorLine l)} agree=1"

end Drv.C05
