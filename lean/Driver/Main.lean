import Driver.Loop
import Driver.C01
import Driver.C02
import Driver.C12Mon
import Driver.Flow
import Driver.C11
open Kv

structure DState where
  c04 : Drv.Flow.FullSt := {}
  c07 : Drv.Flow.FullSt := {}
  deriving Inhabited

/-- full driver: regenerated model + monitor -/
def dispatch (st : DState) (prop : String) (l : Line) : DState × String :=
  match prop with
  | "C01" => (st, Drv.C01.step l)
  | "C02" => (st, Drv.C02.step l)
  | "C12" => (st, Drv.C12.step l)
  | "C11" => (st, Drv.C11.step l)
  | "C04" => let (s, r) := Drv.Flow.step "C04" st.c04 l; ({ st with c04 := s }, r)
  | "C07" => let (s, r) := Drv.Flow.step "C07" st.c07 l; ({ st with c07 := s }, r)
  | _ => (st, "bad-op")

def main : IO Unit := driverMain dispatch {}
