import Driver.Loop
import Driver.C01
import Driver.C02
import Driver.C12Mon
open Kv

/-- full driver: regenerated model + monitor -/
def dispatch (prop : String) (l : Line) : String :=
  match prop with
  | "C01" => Drv.C01.step l
  | "C02" => Drv.C02.step l
  | "C12" => Drv.C12.step l
  | _ => "bad-op"

def main : IO Unit := driverMain dispatch
