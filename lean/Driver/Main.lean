import Driver.Loop
import Driver.C01
import Driver.C02
import Driver.C12
import Driver.Flow
import Driver.C14
import Driver.C05
import Driver.C08
import Driver.C10Mon
import Driver.C10
import Driver.C15
import Driver.C06Mon
import Driver.C06
import Driver.C17
import Driver.C03
import Driver.C18
import Driver.C20
import Driver.C19
import Driver.C16
import Driver.C11
import Driver.C09
import Driver.C13
open Kv

structure DState where
  c02 : Drv.C02.FullSt := {}
  c04 : Drv.Flow.FullSt := {}
  c07 : Drv.Flow.FullSt := {}
  c08 : Drv.C08.FullSt := {}
  c17 : Drv.C17.MonSt := {}
  c03 : Drv.C03.FullSt := {}
  c16 : Drv.C16.FullSt := {}
  c11 : Drv.C11.FullSt := {}
  deriving Inhabited

/-- full driver: regenerated model + monitor -/
def dispatch (st : DState) (prop : String) (l : Line) : DState × String :=
  match prop with
  | "C01" => (st, Drv.C01.step l)
  | "C02" => let (s, r) := Drv.C02.stepSt st.c02 l; ({ st with c02 := s }, r)
  | "C12" => (st, Drv.C12.stepFull l)
  | "C20" => (st, Drv.C20.step l)
  | "C11" => let (s, r) := Drv.C11.stepSt st.c11 l; ({ st with c11 := s }, r)
  | "C04" => let (s, r) := Drv.Flow.step "C04" st.c04 l; ({ st with c04 := s }, r)
  | "C07" => let (s, r) := Drv.Flow.step "C07" st.c07 l; ({ st with c07 := s }, r)
  | "C14" => (st, Drv.C14.step l)
  | "C05" => (st, Drv.C05.stepFull l)
  | "C08" => let (s, r) := Drv.C08.step st.c08 l; ({ st with c08 := s }, r)
  | "C10" => (st, Drv.C10.stepModel l)
  | "C15" => (st, Drv.C15.step l)
  | "C06" => (st, Drv.C06.stepModel l)
  | "C17" => let (s, r) := Drv.C17.step st.c17 l; ({ st with c17 := s }, r)
  | "C03" => let (s, r) := Drv.C03.step st.c03 l; ({ st with c03 := s }, r)
  | "C18" => (st, Drv.C18.step l)
  | "C19" => (st, Drv.C19.step l)
  | "C16" => let (s, r) := Drv.C16.step st.c16 l; ({ st with c16 := s }, r)
  | "C09" => (st, Drv.C09.step l)
  | "C13" => (st, Drv.C13.step l)
  | _ => (st, "bad-op")

def main : IO Unit := driverMain dispatch {}
