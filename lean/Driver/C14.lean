import Driver.C14Mon
import OidcModel.Generated.RequestObject
open Kv Drv

namespace Drv.C14

def modelLine (l : Line) (now : Int) : String × Bool :=
  let registry := Drv.C02.parseRegistry l
  match str l "kind" with
  | "reqobj" =>
    let store : Store := { clients := (registry.map (·.1)).eraseDups.map fun id => { id := id, keys := (registry.filter (·.1 == id)).map (·.2) } }
    match Gen.ParseRequestObject now (plainReq l) store (str l "v.iss") with
    | .error _ => ("err", str l "obs" == "err")
    | .ok a => ("ok", str l "obs" == "ok" && { a with RequestToken := default } == { (afterReq l) with RequestToken := default })
  | _ =>
    let sc : Option (Claims → Go.R Unit) := if has l "v.subjcheck" then some (fun _ => .ok ()) else none
    let v : JWTProfileVerifier := { Issuer := str l "v.iss", MaxAgeIAT := int l "v.maxiat", Offset := int l "v.off", Storage := registry, CheckSubject := sc }
    match Gen.VerifyJWTAssertion now (parseToken l) v with
    | .ok c => ("ok", str l "obs" == "ok" && (str l "kind" == "helper" ||
        (c.iss == str l "o.iss" && c.sub == str l "o.sub" && c.aud == list l "o.aud" && c.exp == int l "o.exp" && c.iat == int l "o.iat")))
    | .error e => (showR (.error e : Go.R Unit), str l "obs" == "err" && (!e.startsWith "Err" || str l "o.err" == e))

def step (l : Line) : String :=
  let (m0, a0) := modelLine l (int l "now0")
  let (m1, _) := modelLine l (int l "now1")
  let stable := m0 == m1
  s!"case={str l "case"} class={str l "kind"}:{obsString l} model={if stable then m0 else "unstable"} observed={obsString l} monitor={showMon (monitorLine l)} agree={if !stable || a0 then 1 else 0}"

end Drv.C14
