import Driver.C14Mon
import OidcModel.Generated.RequestObject
import OidcModel.Generated.AssertionEndpoints
open Kv Drv

namespace Drv.C14

def modelLine (l : Line) (now : Int) : String × Bool :=
  let registry := Drv.C02.parseRegistry l
  match str l "kind" with
  | "reqobj" =>
    let store : Store := { clients := (registry.map (·.1)).eraseDups.map fun id => { id := id, keys := (registry.filter (·.1 == id)).map (·.2) } }
    match Gen.ParseRequestObject now (plainReq l) store (str l "v.iss") with
    | .error _ => ("err", str l "obs" == "err")
    | .ok a => ("ok", str l "obs" == "ok" && { a with RequestToken := default } == { (afterReq l) with RequestToken := default })
  | _ =>
    let sc : Option (Claims → Go.R Unit) := if has l "v.subjcheck" then some (fun _ => .ok ()) else none
    let v : JWTProfileVerifier := { Issuer := str l "v.iss", MaxAgeIAT := int l "v.maxiat", Offset := int l "v.off", Storage := registry, CheckSubject := sc }
    match Gen.VerifyJWTAssertion now (parseToken l) v with
    | .ok c => ("ok", str l "obs" == "ok" && (str l "kind" == "helper" ||
        (c.iss == str l "o.iss" && c.sub == str l "o.sub" && c.aud == list l "o.aud" && c.exp == int l "o.exp" && c.iat == int l "o.iat")))
    | .error e => (showR (.error e : Go.R Unit), str l "obs" == "err" && (!e.startsWith "Err" || str l "o.err" == e))

/-! ### endpoint lines: the regenerated consumers of assertions (`GenC14`), with the verifier built for the issuer the request
    is addressed to -/

def epProvider (l : Line) : AsrtProvider :=
  let registry := Drv.C02.parseRegistry l
  let clients : List OPClient := (List.range (nat l "cl.n")).map fun i =>
    let id := str l s!"cl.{i}.id"
    { id := id, auth := str l s!"cl.{i}.auth", keys := (registry.filter (·.1 == id)).map (·.2) }
  let refused := list l "scope.forbidden"
  { storage := { base := { clients := clients }, scopePolicy := fun _ s => .ok (s.filter fun x => !refused.contains x) },
    pkjwtSupported := bool l "cfg.pkjwt", tokenOf := fun _ => parseToken l }

/-- what the endpoint does with the request: `.ok (identity, scopes)` = honoured -/
def epModel (l : Line) (now : Int) : Go.R (String × List String) :=
  let p := epProvider l
  let iss := str l "req.iss"
  let legacy := str l "router" == "legacy"
  let ep := str l "ep"
  let owner := str l "g.owner"
  let owned (id : String) : Go.R (String × List String) := if owner == "" || owner == id then .ok (id, []) else .error "ErrInvalidGrant"
  -- private_key_jwt at the token endpoint (and, on the legacy server, wherever a client is verified): AuthorizePrivateJWTKey
  let viaPrivateKey : Go.R (String × List String) :=
    if !p.pkjwtSupported then .error "ErrInvalidClient" else
    match GenC14.AuthorizePrivateJWTKey now iss (parseToken l) p with
    | .error e => .error e
    | .ok c => owned c.id
  -- the request as ClientIDFromRequest / ParseTokenRevocationRequest read it: only the assertion, typed jwt-bearer
  let req : AsrtHttpReq := { Form := { ClientAssertion := "assertion", ClientAssertionType := Const.ClientAssertionTypeJWTAssertion } }
  -- introspection, device authorization and the device grant of the Provider router: ClientIDFromRequest (assertion, then the registered method)
  let viaClientID : Go.R (String × List String) :=
    match GenC14.ClientIDFromRequest now iss req p with
    | .error e => .error e
    | .ok (id, _) => owned id
  match ep with
  | "bearer" =>
    if legacy then
      match GenC14.LegacyJWTProfile now iss { provider := p } { Data := { Assertion := "assertion", Scope := list l "scope.req" } } with
      | .error e => .error e
      | .ok resp => .ok (resp.subject, resp.scopes)
    else
      match GenC14.JWTProfile now iss (.ok { Assertion := "assertion", Scope := list l "scope.req" }) p with
      | .requestError e => .error e
      | .json resp => .ok (resp.subject, resp.scopes)
  | "code" | "refresh" | "exchange" => viaPrivateKey
  | "introspect" =>
    if legacy then
      match GenC14.LegacyAuthenticateResourceClient now iss { provider := p } { ClientAssertion := "assertion" } with
      | .error e => .error e
      | .ok id => .ok (id, [])
    else viaClientID
  | "device" | "devauth" => if legacy then viaPrivateKey else viaClientID
  | "revoke" =>
    if legacy then viaPrivateKey
    else
      match GenC14.ParseTokenRevocationRequest now iss req p with
      | .error e => .error e
      | .ok (_, _, id) => .ok (id, [])
  | _ => .error "bad-ep"

def epLine (l : Line) (now : Int) : String × Bool :=
  match epModel l now with
  | .ok (id, scopes) =>
    ("ok", str l "obs" == "ok" && (!has l "o.id" || str l "o.id" == id) && (str l "ep" != "bearer" || list l "o.scope" == scopes))
  | .error _ => ("err", str l "obs" == "err")

def stepEndpoint (l : Line) : String :=
  let (m0, a0) := epLine l (int l "now0")
  let (m1, _) := epLine l (int l "now1")
  let stable := m0 == m1
  s!"case={str l "case"} class={lineClass l} model={if stable then m0 else "unstable"} observed={obsString l} monitor={showMon (monitorLine l)} agree={if !stable || a0 then 1 else 0}"

def step (l : Line) : String :=
  if str l "kind" == "endpoint" then stepEndpoint l else
  let (m0, a0) := modelLine l (int l "now0")
  let (m1, _) := modelLine l (int l "now1")
  let stable := m0 == m1
  s!"case={str l "case"} class={str l "kind"}:{obsString l} model={if stable then m0 else "unstable"} observed={obsString l} monitor={showMon (monitorLine l)} agree={if !stable || a0 then 1 else 0}"

end Drv.C14
