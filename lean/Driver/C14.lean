import Driver.C14Mon
import OidcModel.Generated.RequestObject
import OidcModel.Generated.AssertionEndpoints
import OidcModel.Generated.AssertionHelpers
open Kv Drv

namespace Drv.C14

def modelLine (l : Line) (now : Int) : String × Bool :=
  let registry := Drv.C02.parseRegistry l
  match str l "kind" with
  | "reqobj" | "roendpoint" =>
    -- at the authorization endpoint (roendpoint) the object is looked at only when the provider has request objects switched on;
    -- otherwise a request that carries one is refused (Provider router: request_not_supported after validation; legacy: at once)
    if str l "kind" == "roendpoint" && !bool l "ro.supported" then ("err", str l "obs" == "err") else
    let store : Store := { clients := (registry.map (·.1)).eraseDups.map fun id => { id := id, keys := (registry.filter (·.1 == id)).map (·.2) } }
    match Gen.ParseRequestObject now (plainReq l) store (str l "v.iss") with
    | .error _ => ("err", str l "obs" == "err")
    | .ok a => ("ok", str l "obs" == "ok" && { a with RequestToken := default } == { (afterReq l) with RequestToken := default })
  | _ =>
    let sc : Option (Claims → Go.R Unit) := if has l "v.subjcheck" then some (fun _ => .ok ()) else none
    let v : JWTProfileVerifier := { Issuer := str l "v.iss", MaxAgeIAT := int l "v.maxiat", Offset := int l "v.off", Storage := registry, CheckSubject := sc }
    if str l "via" == "clientauth" then
      -- (deep 4) through the regenerated `ClientJWTAuth`, on a holder whose `JWTProfileVerifier(ctx)` hands out this verifier
      let clients : List OPClient := (registry.map (·.1)).eraseDups.map fun id => { id := id, keys := (registry.filter (·.1 == id)).map (·.2) }
      let vg : AsrtVerifierGo :=
        { Verifier := { Issuer := str l "v.iss", MaxAgeIAT := int l "v.maxiat", Offset := int l "v.off" }, Storage := { base := { clients := clients } },
          CheckSubject := sc.getD (Gen.SubjectIsIssuer now) }
      let p : AsrtProvider := { tokenOf := fun _ => parseToken l, customVerifier := some fun _ => vg }
      match GenC14.ClientJWTAuth now "" { ClientAssertion := "assertion" } p with
      | .ok id => ("ok", str l "obs" == "ok" && id == str l "o.id")
      | .error _ => ("err", str l "obs" == "err")
    else
    match Gen.VerifyJWTAssertion now (parseToken l) v with
    | .ok c => ("ok", str l "obs" == "ok" && (str l "kind" == "helper" || (str l "via" == "clientauth" && c.iss == str l "o.id") ||
        (c.iss == str l "o.iss" && c.sub == str l "o.sub" && c.aud == list l "o.aud" && c.exp == int l "o.exp" && c.iat == int l "o.iat")))
    | .error e => (showR (.error e : Go.R Unit), str l "obs" == "err" && (!e.startsWith "Err" || str l "via" == "clientauth" || str l "o.err" == e))

/-! ### endpoint lines: the regenerated consumers of assertions (`GenC14`), with the verifier built for the issuer the request
    is addressed to -/

def epProvider (l : Line) : AsrtProvider :=
  let registry := Drv.C02.parseRegistry l
  let clients : List OPClient := (List.range (nat l "cl.n")).map fun i =>
    let id := str l s!"cl.{i}.id"
    { id := id, auth := str l s!"cl.{i}.auth", keys := (registry.filter (·.1 == id)).map (·.2) }
  let refused := list l "scope.forbidden"
  -- the scope policy tags its answer with the id it was asked for, so that the identity the jwt-bearer grant acted for shows
  let storage : AsrtStorage := { base := { clients := clients }, scopePolicy := fun id s => .ok (("@" ++ id) :: s.filter fun x => !refused.contains x) }
  -- (deep 4) a provider whose verifier is configured with a custom subject check: an OP that implements `JWTProfileVerifier(ctx)` as
  -- `op.NewJWTProfileVerifier(storage, IssuerFromContext(ctx), time.Hour, time.Second, op.SubjectCheck(check))` (regenerated constructor + option)
  let custom : Option (String → AsrtVerifierGo) := (subjCheckOf l).map fun admits => fun iss =>
    GenC14.NewJWTProfileVerifier 0 storage iss (3600 * Go.second) Go.second
      [GenC14.SubjectCheck 0 (fun c => if admits c then .ok () else .error "subject not admitted")]
  { storage := storage, pkjwtSupported := bool l "cfg.pkjwt", tokenOf := fun _ => parseToken l, customVerifier := custom }

/-- what the endpoint does with the request: `.ok (identity, scopes)` = honoured -/
def epModel (l : Line) (now : Int) : Go.R (String × List String) :=
  let p := epProvider l
  let iss := str l "req.iss"
  let legacy := str l "router" == "legacy"
  let ep := str l "ep"
  let owner := str l "g.owner"
  let owned (id : String) : Go.R (String × List String) := if owner == "" || owner == id then .ok (id, []) else .error "ErrInvalidGrant"
  -- private_key_jwt at the token endpoint (and, on the legacy server, wherever a client is verified): AuthorizePrivateJWTKey
  let viaPrivateKey : Go.R (String × List String) :=
    if !p.pkjwtSupported then .error "ErrInvalidClient" else
    match GenC14.AuthorizePrivateJWTKey now iss (parseToken l) p with
    | .error e => .error e
    | .ok c => owned c.id
  -- the request as ClientIDFromRequest / ParseTokenRevocationRequest read it: only the assertion, typed jwt-bearer
  let req : AsrtHttpReq := { Form := { ClientAssertion := "assertion", ClientAssertionType := Const.ClientAssertionTypeJWTAssertion } }
  -- introspection, device authorization and the device grant of the Provider router: ClientIDFromRequest (assertion, then the registered method)
  let viaClientID : Go.R (String × List String) :=
    match GenC14.ClientIDFromRequest now iss req p with
    | .error e => .error e
    | .ok (id, _) => owned id
  -- jwt-bearer: the identity the grant acted for = the id the scope policy was asked for (the tag); the token is for `resp.subject`
  let bearer (resp : AsrtTokenResponse) : Go.R (String × List String) :=
    if has l "o.sub" && str l "o.sub" != resp.subject then .error "token-subject-differs" else
    match resp.scopes with
    | tag :: rest => .ok (String.ofList (tag.toList.drop 1), rest)
    | [] => .ok ("", [])
  match ep with
  | "bearer" =>
    if legacy then
      match GenC14.LegacyJWTProfile now iss { provider := p } { Data := { Assertion := "assertion", Scope := list l "scope.req" } } with
      | .error e => .error e
      | .ok resp => bearer resp
    else
      match GenC14.JWTProfile now iss (.ok { Assertion := "assertion", Scope := list l "scope.req" }) p with
      | .requestError e => .error e
      | .json resp => bearer resp
  | "code" | "refresh" | "exchange" => viaPrivateKey
  | "introspect" =>
    if legacy then
      match GenC14.LegacyAuthenticateResourceClient now iss { provider := p } { ClientAssertion := "assertion" } with
      | .error e => .error e
      | .ok id => .ok (id, [])
    else viaClientID
  | "device" | "devauth" => if legacy then viaPrivateKey else viaClientID
  | "revoke" =>
    if legacy then viaPrivateKey
    else
      match GenC14.ParseTokenRevocationRequest now iss req p with
      | .error e => .error e
      | .ok (_, _, id) => .ok (id, [])
  | _ => .error "bad-ep"

def epLine (l : Line) (now : Int) : String × Bool :=
  match epModel l now with
  | .ok (id, scopes) =>
    ("ok", str l "obs" == "ok" && (!has l "o.id" || str l "o.id" == id) && (str l "ep" != "bearer" || list l "o.scope" == scopes))
  | .error _ => ("err", str l "obs" == "err")

def stepEndpoint (l : Line) : String :=
  let (m0, a0) := epLine l (int l "now0")
  let (m1, _) := epLine l (int l "now1")
  let stable := m0 == m1
  s!"case={str l "case"} class={lineClass l} model={if stable then m0 else "unstable"} observed={obsString l} monitor={showMon (monitorLine l)} agree={if !stable || a0 then 1 else 0}"

/-! ### mint lines: the regenerated client helpers (`GenC14`, Generated/AssertionHelpers.lean) against what the real helpers returned -/

def mintKey (l : Line) : HlpKeyBytes :=
  let k : HlpPrivateKey := { keyNo := nat l "h.no", kty := parseKty (str l "h.kty"), curveBits := if str l "h.form" == "pkcs8-ec384" then 384 else 256 }
  match str l "h.form" with
  | "pkcs1-rsa" => { block := some {}, pkcs1 := .ok k }
  | "pkcs8-rsa" => { block := some {}, pkcs8 := .ok (.rsa k) }
  | "pkcs8-ec256" | "pkcs8-ec384" => { block := some {}, pkcs8 := .ok (.ecdsa k) }
  | "pkcs8-ed25519" => { block := some {}, pkcs8 := .ok (.ed25519 k) }
  | "pkcs8-other" => { block := some {}, pkcs8 := .ok .other }
  | "sec1-ec" => { block := some {} }
  | _ => {}

def mintErrClass (e : String) : String :=
  if e == "ErrPEMDecode" then "pem" else if e == "ErrUnsupportedFormat" then "format" else if e == "ErrUnsupportedPrivateKey" then "keytype"
  else if e.startsWith "go-jose: expected" then "sign" else "signer"

/-- what matters of a minted token: header, signer, claims -/
def mintSummary (t : Token) : String :=
  match t.jws, t.middle.bind (·.claims) with
  | some j, some c =>
    match j.Signatures with
    | [s] => s!"ok:{t.segs}:{s.Header.Algorithm}:{s.Header.KeyID}:{s.signer}:{s.signedAlg}:{c.iss}:{c.sub}:{c.aud}:{c.iat}:{c.exp}"
    | _ => "ok:signatures"
  | _, _ => "ok:unparsable"

def mintModel (l : Line) (now : Int) : String :=
  let cd : HlpCodec := { bytesOf := fun _ => nat l "t.mid" }
  let r : Go.R Token :=
    if str l "family" == "generate" then
      GenC14.GenerateJWTProfileToken now cd (GenC14.NewJWTProfileAssertion now (str l "h.client") (str l "h.kid") (list l "h.aud") (mintKey l) [])
    else
      match GenC14.NewSignerFromPrivateKeyByte now (mintKey l) (str l "h.kid") with
      | .error e => .error e
      | .ok s => GenC14.SignedJWTProfileAssertion now cd (str l "h.client") (list l "h.aud") (int l "h.exp") s
  match r with
  | .error e => "err:" ++ mintErrClass e
  | .ok t => mintSummary t

def stepMint (l : Line) : String :=
  let observed := if str l "h.obs" == "ok" then mintSummary (parseToken l) else str l "h.obs"
  let m0 := mintModel l (int l "m0")
  let m1 := mintModel l (int l "m1")
  let agree := observed == m0 || observed == m1
  s!"case={str l "case"} class={lineClass l} model={if agree then observed else m0} observed={observed} monitor={showMon (monitorLine l)} agree={if agree then 1 else 0}"

def step (l : Line) : String :=
  if str l "kind" == "endpoint" then stepEndpoint l else
  if str l "kind" == "mint" then stepMint l else
  let (m0, a0) := modelLine l (int l "now0")
  let (m1, _) := modelLine l (int l "now1")
  let stable := m0 == m1
  s!"case={str l "case"} class={lineClass l} model={if stable then m0 else "unstable"} observed={obsString l} monitor={showMon (monitorLine l)} agree={if !stable || a0 then 1 else 0}"

end Drv.C14
