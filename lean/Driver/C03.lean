import Driver.C03Mon
import OidcModel.Model.AuthzFlow
import OidcModel.Model.AuthzFormPost
open Kv

/-! C03 driver, model side: the regenerated authorization-endpoint functions + the hand-written shells, run on the
    same request with the same library answers; its response is compared with the observed one. -/
namespace Drv.C03

structure FullSt where
  mon : MonSt := {}
  st : Authz.St := {}
  cfg : Authz.Cfg := {}
  router : Authz.Router := .provider
  deleted : List String := []     -- requests the storage has deleted (CreateTokenResponse consumes the request)
  -- (round 4) the package-level state of pkg/op the regenerated `AuthResponseFormPost` program left behind (`none` = before the
  -- first form_post answer of the process: `GenWire.formPostPkg`)
  pkg : Option AuthzFP.Pkg := none
  deriving Inhabited

def hexNib (c : Char) : Nat :=
  if '0' ≤ c ∧ c ≤ '9' then c.toNat - '0'.toNat else if 'a' ≤ c ∧ c ≤ 'f' then c.toNat - 'a'.toNat + 10 else 0
def hexBytes : List Char → List UInt8
  | a :: b :: rest => UInt8.ofNat (hexNib a * 16 + hexNib b) :: hexBytes rest
  | _ => []
/-- `p=name,hexvalue,name,hexvalue,`: what the schema encoder wrote for this response -/
def respOf : List String → AR.Values
  | k :: v :: rest => (respOf rest).Add k.toUTF8.toList (hexBytes v.toList)
  | _ => {}

/-- (round 4) a callback answered on a connection that may break (`fp=1`): where the symbolic model answers with a form_post page,
    the REGENERATED program of `AuthResponseFormPost` (C11's `GenWire.formPostProgram`) is run on the package-level state the
    earlier answers left behind, on the page rendered from the regenerated template for THIS stored request's redirect URI, with
    this line's connection fault.  Result: the model's response in canonical form (where the first form of the delivered document
    points, or `page` when no form arrived), the state left behind, and whether the delivered bytes are the observed ones. -/
def deliver (fs : FullSt) (o : UriOracle) (l : Line) (expected : String) : String × AuthzFP.Pkg × Bool :=
  let uri := ((fs.st.stored.find? (·.id == str l "id")).map (·.redirectURI)).getD ""
  let fault : FP.WFault := match str l "w.kind" with
    | "err" => .err (nat l "w.k")
    | "short" => .short (nat l "w.k")
    | _ => .none
  let res := FP.run GenWire.formPostProgram (AuthzFP.reqOf uri { resp := respOf (list l "p"), fault := fault })
    (fs.pkg.getD GenWire.formPostPkg)
  let shown := match AuthzFP.firstFormAction res.rw.body with
    | some a =>
      let a := AuthzFP.asciiStr a
      "formpost:" ++ esc (if _root_.C03.destOf o a == _root_.C03.destOf o expected then expected else a) ++ ":-"
    | none => "page"
  (shown, res.pkg, res.rw.body == hexBytes (str l "o.body").toList && GenWire.formPostProgram.all FP.supported)

def roOracle (l : Line) : AzRoOracle :=
  { ParseToken := fun _ =>
      if has l "ro.iss" then
        .ok ("payload", { Issuer := str l "ro.iss", ClientID := str l "ro.cid", ResponseType := str l "ro.rt",
                          Audience := if bool l "ro.audok" then [""] else ["https://other.example"],
                          RedirectURI := str l "ro.uri", State := str l "ro.state", ResponseMode := str l "ro.mode" })
      else .error "ErrInvalidRequest",
    CheckSignature := fun _ _ ro _ _ => if bool l "ro.sig" then .ok ro else .error "signature" }

/-- twins of the sub-validations the stream exercises (the theorems quantify over ALL such functions) -/
def deps (l : Line) : AuthDeps :=
  { ValidateAuthReqPrompt := fun ps m => if ps.contains "none" && ps.length > 1 then .error "ErrInvalidRequest" else .ok m,
    ValidateAuthReqScopes := fun _ s => if s.isEmpty then .error "ErrInvalidRequest" else .ok s,
    ValidateAuthReqIDTokenHint := fun h _ => if h == "" then .ok "" else .error "ErrLoginRequired",
    -- REGENERATED ParseRequestObject + CopyRequestObjectToAuthRequest on the claims the harness put into the request object;
    -- the oracles: ParseToken = those claims, CheckSignature = "signed with the key registered for the issuer"
    ParseRequestObject := fun a stg iss => GenAz.ParseRequestObject 0 (roOracle l) a stg iss,
    CreateTokenResponse := fun _ _ _ _ _ _ => if has l "f.token" then .error (str l "f.token") else .ok { kind := "token" },
    CreateAuthRequestCode := fun _ _ _ => if has l "f.savecode" then .error (str l "f.savecode") else .ok "code",
    -- html/template: the action attribute it renders for the request's redirect URI is what the harness's OWN template rendered
    FormTemplate := { Execute := fun ps => .ok ⟨if has l "t.act" then str l "t.act" else ps.RedirectURI⟩ } }

def faults (l : Line) (deleted : List String := []) : Authz.Faults :=
  { getClient := fun _ => opt l "f.getclient",
    -- refstore.CreateAuthRequest answers prompt=none with login_required
    create := fun a => if has l "f.create" then opt l "f.create" else if a.Prompt == ["none"] then some "ErrLoginRequired" else none,
    -- a deleted request is one more way for AuthRequestByID to fail
    byID := fun id => if has l "f.byid" then opt l "f.byid" else if deleted.contains id then some "auth request not found" else none }

def oauthCode (e : String) : String :=
  ((Gen.oidcErrorCodes.find? (·.1 == e)).map (·.2)).getD "server_error"

def showParams (p : RespParams) : String :=
  if p.kind == "error" then "error:" ++ oauthCode p.err else p.kind

def showWrite (w : Write) : String :=
  match w with
  | .page _ => "page"
  | .redirect (.login c _) => "login:" ++ esc c
  | .redirect (.response base frag p) => "redirect:" ++ esc base ++ ":" ++ (if frag then "f" else "q") ++ ":" ++ esc (showParams p)
  | .formPost a => "formpost:" ++ esc a ++ ":" ++ "-"

def showWrites (ws : List Write) : String :=
  if ws.isEmpty then "none" else "+".intercalate (ws.map showWrite)

/-- the observed response in the same canonical form; `expected` = the redirect URI the response should be built on -/
def showObs (fs : FullSt) (o : UriOracle) (l : Line) (client expected : String) : String :=
  match str l "obs" with
  | "page" => "page"
  | "redirect" =>
    match sentOfObs fs.mon o l client with
    | .login _ => "login:" ++ esc client
    | _ =>
      let loc := str l "o.loc"
      let base := if _root_.C03.destOf o loc == _root_.C03.destOf o expected then expected else "?" ++ loc
      "redirect:" ++ esc base ++ ":" ++ str l "o.where" ++ ":" ++ esc (str l "o.kind")
  | "formpost" =>
    let a := str l "o.action"
    "formpost:" ++ esc (if _root_.C03.destOf o a == _root_.C03.destOf o expected then expected else a) ++ ":-"
  | x => x

def authReqOf (l : Line) : AuthRequestData :=
  { Scopes := list l "scopes", ResponseType := str l "rt", ClientID := str l "client", RedirectURI := if has l "form.uri" then str l "form.uri" else str l "uri", State := str l "state",
    ResponseMode := str l "mode", Prompt := list l "prompt", IDTokenHint := str l "hint", RequestParam := str l "request" }

def step (fs : FullSt) (l : Line) : FullSt × String :=
  let (mon', v, s) := monStep fs.mon l
  let now : Int := 0
  let (fs', modelS, obsS) : FullSt × String × String :=
    match str l "op" with
    | "reset" =>
      ({ fs with st := {}, deleted := [], cfg := { clients := parseClients l, requestObjects := bool l "ro" },
                 router := if str l "router" == "legacy" then .legacy else .provider }, "reset", "reset")
    | "authorize" =>
      let o := parseOracle l
      let parsed : Go.R AuthRequestData := if str l "parse" == "err" then .error "ErrInvalidRequest" else .ok (authReqOf l)
      let newID := match s with
        | .login id => id
        | _ => "?"
      -- the raw request: `r.ParseForm()` fails for a malformed query (`parse=err`), the schema decoder is the oracle
      let r : AzHttpReq := { ParseForm := if str l "parse" == "err" then .error "parse" else .ok () }
      let dec : AzDecoder := { Decode := fun _ => parsed }
      let (st', ws) := Authz.step now o fs.cfg fs.st (.authorize fs.router r dec (deps l) (faults l) newID)
      ({ fs with st := st' }, showWrites ws, showObs fs o l (str l "client") (str l "uri"))
    | "login" =>
      let (st', _) := Authz.step now (parseOracle l) fs.cfg fs.st (.login (str l "id"))
      ({ fs with st := st' }, "done", "done")
    | "callback" =>
      let o := parseOracle l
      let r : AzHttpReq := { Form := { kv := if has l "id" then [("id", str l "id")] else [] } }
      let (st', ws) := Authz.step now o fs.cfg fs.st (.callback r (deps l) (faults l fs.deleted))
      let expected := ((fs.mon.m.accepted.find? (·.id == str l "id")).map (·.uri)).getD ""
      -- pkg/op/token.go CreateTokenResponse: a successful token response deletes the auth request
      let isCode := ((fs.st.stored.find? (·.id == str l "id")).map (·.responseType == Const.ResponseTypeCode)).getD true
      let tokenIssued := ws.any fun w => match w with
        | .redirect (.response _ _ p) => p.kind == "token"
        | .formPost _ => !isCode
        | _ => false
      let fs1 := { fs with st := st', deleted := if tokenIssued then str l "id" :: fs.deleted else fs.deleted }
      if has l "fp" && ws.any AuthzFP.isFormPost then
        let (shown, pkg', bytesOK) := deliver fs o l expected
        ({ fs1 with pkg := some pkg' }, (if bytesOK then shown else shown ++ "!delivered-bytes-differ"),
         showObs fs o l (callbackClient fs.mon (str l "id")) expected)
      else
      (fs1, showWrites ws, showObs fs o l (callbackClient fs.mon (str l "id")) expected)
    | _ => (fs, "?", "?")
  let agree := modelS == obsS
  ({ fs' with mon := mon' },
   s!"case={str l "case"} class={str l "op"}:{str l "cls"}:{obsClass l} model={modelS} observed={obsS} monitor={showMon v} agree={if agree then 1 else 0}")

end Drv.C03
