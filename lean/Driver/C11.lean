import Driver.C11Mon
import OidcModel.Generated.AuthResponse
import OidcModel.Generated.AuthError
import OidcModel.Generated.RequestObject
import OidcModel.Model.C11ErrVal
open Kv

/-! C11 model driver: recomputes the Location value / the HTML page with the regenerated model and compares
    it byte for byte with what the implementation produced. -/
namespace Drv.C11

/-- the provider's response as `url.Values` (what the schema encoder wrote) -/
def valuesOf (ps : List (UA.Bytes × UA.Bytes)) : AR.Values := ps.foldl (fun m p => m.Add p.1 p.2) {}

/-- oracle: what net/url.Parse returned for the redirect URI -/
def urlOracle (l : Line) : AR.Bytes → Go.R AR.URL := fun _ =>
  if bool l "u.ok" then
    .ok { base := bytesOf l "u.base", RawQuery := bytesOf l "u.rawq", ForceQuery := bool l "u.fq",
          Fragment := bytesOf l "u.frag", RawFragment := bytesOf l "u.rawfrag" }
  else .error "url-parse"

inductive Outcome
  | redirect (loc : AR.Bytes)
  | form (page : AR.Bytes)
  | refused
  deriving DecidableEq

/-- the handlers AuthResponseCode / AuthResponseToken answer a form_post request with the form; everything else
    (and every error response) goes through AuthResponseURL; `http.Redirect` escapes non-ASCII bytes -/
def model (l : Line) : Outcome :=
  let i := parseInput l
  let resp := valuesOf (if has l "e" then pairsOf (list l "e") else i.params)
  if str l "kind" == "form" || (str l "kind" != "url" && i.mode == "form_post" && !i.isError) then
    .form (AR.render GenWire.formPostAutoescape GenWire.formPostTemplate i.uri resp)
  else
    match GenWire.AuthResponseURL 0 (urlOracle l) i.uri i.rtype i.mode resp () with
    | .ok loc => .redirect (if bool l "direct" then loc else AR.hexEscapeNonASCII loc)
    | .error _ => .refused

def observedOutcome (l : Line) : Option Outcome :=
  match str l "obs" with
  | "redirect" => some (.redirect (bytesOf l "o.loc"))
  | "form" => some (.form (bytesOf l "o.body"))
  | "refused" => some .refused
  | _ => none

def showOutcome : Outcome → String
  | .redirect _ => "redirect"
  | .form _ => "form"
  | .refused => "refused"

/-- the hypotheses the theorems make about url.Parse's answer (`C11.ParseOK`), evaluated on the oracle values -/
def parseHypOK (l : Line) : Bool :=
  if !bool l "u.ok" then true else
  let uri := bytesOf l "uri"
  let base := bytesOf l "u.base"
  base.all (fun b => b != 0x23 && b != 0x3F)
    && UA.locationQuery uri == bytesOf l "u.rawq"
    && UA.sameTarget base (UA.locationBase uri)

def strOf (b : List UInt8) : String := (String.fromUTF8? ⟨b.toArray⟩).getD ""

/-- source-traced cases: the regenerated functions that decide WHAT is handed to the transport code are run on the source
    values and compared with what the encoder recorded (`p`):
    * the state on the stored request = `Gen.CopyRequestObjectToAuthRequest` on (plain parameter, request-object claims) when
      the provider honours the request object, the plain parameter otherwise;
    * error code / description = `GenErr.DefaultToServerError` on the storage's error value and the description argument of
      the call site (`err.Error()` in the callback, the provider's own wording for CreateAuthRequest);
    * `AR.Sprintf text []` = what the real `fmt.Sprintf(text)` answered (the model of printf without operands). -/
def sourceModelOK (l : Line) : Bool :=
  if !bool l "src" then true else
  let i := parseInput l
  let produced (k : String) : List UA.Bytes := UA.valuesOf k.toUTF8.toList i.params
  let opt (b : UA.Bytes) : List UA.Bytes := if b.isEmpty then [] else [b]
  let plain := strOf (bytesOf l "src.st.plain")
  let ro := strOf (bytesOf l "src.st.ro")
  let stored : AuthRequestIn :=
    if bool l "src.ro.honoured" then Gen.CopyRequestObjectToAuthRequest 0 { State := plain, Nonce := "n-plain" } { ro := { State := ro, Nonce := str l "src.ro.nonce" } }
    else { State := plain }
  let stateOK := produced "state" == opt stored.State.toUTF8.toList
  let errOK :=
    if !has l "src.err.kind" || !bool l "src.desc.traced" then true else
    let text := bytesOf l "src.err.text"
    let inner : AR.OidcError := { ErrorType := str l "src.err.code", Description := bytesOf l "src.err.desc" }
    let gerr : AR.GoErr := match str l "src.err.kind" with
      | "oidc" => .oidc inner
      | "wrap-oidc" => .wraps text inner
      | _ => .plain text
    let descArg : AR.Bytes := if str l "src.err.site" == "CreateAuthRequest" then AR.ascii "unable to save auth request" else AR.errText gerr
    let e := GenErr.DefaultToServerError 0 gerr descArg
    produced "error_description" == opt e.Description && produced "error" == [AR.ascii e.ErrorType]
      && AR.Sprintf (bytesOf l "src.err.rawtext") == bytesOf l "src.err.sprintf"
  stateOK && errOK

/-- what survives between two lines of the stream: the package-level state of pkg/op the regenerated
    `AuthResponseFormPost` leaves behind (`none` = before the first call: `GenWire.formPostPkg`) -/
structure FullSt where
  pkg : Option (List (String × FP.PkgVal)) := none
  deriving Inhabited

def faultOf (l : Line) : FP.WFault :=
  match str l "f.kind" with
  | "err" => .err (nat l "f.k")
  | "short" => .short (nat l "f.k")
  | _ => .none

/-- a step of a sequence (kind `seq`): the regenerated program of `AuthResponseFormPost` is run on the package-level state the
    previous steps left behind, with this step's connection fault; what the user agent received must be the same bytes -/
def stepSeq (st : FullSt) (l : Line) : FullSt × String :=
  let i := parseInput l
  let resp := valuesOf i.params
  let req : FP.Req := { page := AR.render GenWire.formPostAutoescape GenWire.formPostTemplate i.uri resp,
                        encFail := str l "f.kind" == "enc", fault := faultOf l }
  let res := FP.run GenWire.formPostProgram req (st.pkg.getD GenWire.formPostPkg)
  let kind := if res.failed || res.rw.dead then "partial" else "form"
  let agree := kind == str l "obs" && res.rw.body == bytesOf l "o.body" && res.rw.status.getD 200 == 200
    && FP.delivered req == res.rw.body && GenWire.formPostProgram.all FP.supported
  ({ pkg := some res.pkg },
   s!"case={str l "case"} class={classOf l}:{str l "f.kind"}{if bool l "f.hit" then "-hit" else ""} model={kind} observed={str l "obs"} monitor={showMon (monitorLine l)} hyp=1 agree={if agree then 1 else 0}")

/-- kind `par` (error responses in flight at the same time): the REGENERATED statement lists of AuthRequestError / TryErrorRedirect
    (`GenErr.*Program`: which error object each statement addresses) are run for the whole group under the group's schedule on the
    handed-in error objects (`par.g.cell`: 0 = the one sentinel all requests of the group were handed); the state / session_state
    the model says THIS response carries must be what the encoder recorded for it, and what the model says the sentinel holds
    after the group must be what it held (`par.h1`, `par.h1s`) -/
def parModelOK (l : Line) : Bool :=
  if str l "kind" != "par" || !has l "par.g.fn" then true else
  let progOf (f : String) : List ErrPar.Op :=
    if f == "TryErrorRedirect" then GenErr.tryErrorRedirectProgram else GenErr.authRequestErrorProgram
  let progs := (list l "par.g.fn").map progOf
  let states := (list l "par.g.states").map (fun s => hexBytes s.toList)
  let sess := (list l "par.g.sess").map (fun s => hexBytes s.toList)
  let cells := (list l "par.g.cell").map (fun s => s.toNat?.getD 0)
  let ts : Nat → ErrPar.Thread := fun j =>
    { cell := cells.getD j (j + 1), state := states.getD j [], session := sess.getD j [], prog := progs.getD j [] }
  let h0 : ErrPar.Heap := fun c => if c = 0 then (bytesOf l "par.h0", bytesOf l "par.h0s") else ([], [])
  let r := ErrPar.run (ErrPar.schedOf (bool l "par.g.parked") progs) h0 ts
  let produced := if has l "e" then pairsOf (list l "e") else (parseInput l).params
  let opt (b : UA.Bytes) : List UA.Bytes := if b.isEmpty then [] else [b]
  let sentOK :=
    if (UA.valuesOf "error".toUTF8.toList produced).isEmpty then true else
    match (r.2 (nat l "par.i")).sent with
    | some (st, ss) => UA.valuesOf "state".toUTF8.toList produced == opt st && UA.valuesOf "session_state".toUTF8.toList produced == opt ss
    | none => false
  let heapOK := !bool l "par.h" || r.1 0 == (bytesOf l "par.h1", bytesOf l "par.h1s")
  sentOK && heapOK && progs.all (fun p => p.all fun o => match o with | .unsupported _ => false | _ => true)

/-- kinds `error` / `tryerror` (AuthRequestError / TryErrorRedirect called directly, also the length cases): the REGENERATED statement
    list of the function is run on the VALUE of the error that was handed in (`p`: code and description as the error value says) with the
    request's state / session_state as the assigned values (`C11.ErrVal.exec`); the error it hands to the encoder must be what the
    encoder recorded (`e`, or `p` when nothing differs): code, description, state, session_state -/
def errValOK (l : Line) : Bool :=
  if str l "kind" != "error" && str l "kind" != "tryerror" then true else
  if str l "obs" != "redirect" then true else
  let prog := if str l "kind" == "tryerror" then GenErr.tryErrorRedirectProgram else GenErr.authRequestErrorProgram
  let p := (parseInput l).params
  let enc := if has l "e" then pairsOf (list l "e") else p
  let get (ps : List (UA.Bytes × UA.Bytes)) (k : String) : UA.Bytes := (UA.valuesOf k.toUTF8.toList ps).headD []
  let e0 : C11.ErrVal.EObj := { ty := get p "error", desc := get p "error_description" }
  let v : Nat → C11.ErrVal.EObj → C11.ErrVal.EObj := fun _ o => { o with state := get p "state", sess := get p "session_state" }
  match C11.ErrVal.exec v prog 0 e0 none with
  | some s => s.ty == get enc "error" && s.desc == get enc "error_description" && s.state == get enc "state" && s.sess == get enc "session_state"
  | none => false

def step (l : Line) : String :=
  let m := model l
  let hyp := parseHypOK l
  let agree := observedOutcome l == some m && hyp && sourceModelOK l && parModelOK l && errValOK l
  s!"case={str l "case"} class={classOf l} model={showOutcome m} observed={str l "obs"} monitor={showMon (monitorLine l)} hyp={if hyp then 1 else 0} agree={if agree then 1 else 0}"

end Drv.C11

namespace Drv.C11
def stepSt (st : FullSt) (l : Line) : FullSt × String :=
  if str l "kind" == "seq" then stepSeq st l else (st, step l)
end Drv.C11
