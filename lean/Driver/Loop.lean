import Driver.Kv
open Kv

partial def driverLoop (dispatch : String → Line → String) (h : IO.FS.Stream) (out : IO.FS.Stream) : IO Unit := do
  let line ← h.getLine
  if line.isEmpty then return ()
  let line := (line.dropRightWhile (fun c => c == '\n' || c == '\r'))
  if line.isEmpty || line.startsWith "#" then driverLoop dispatch h out else
  let (prop, kv) := parseLine line
  out.putStrLn (dispatch prop kv)
  driverLoop dispatch h out

def driverMain (dispatch : String → Line → String) : IO Unit := do
  let out ← IO.getStdout
  driverLoop dispatch (← IO.getStdin) out
  out.flush
