import Driver.Kv
open Kv

/-- stateful line loop: `dispatch` threads a driver state through the lines (histories) -/
partial def driverLoop {σ : Type} (dispatch : σ → String → Line → σ × String) (st : σ) (h : IO.FS.Stream) (out : IO.FS.Stream) : IO Unit := do
  let line ← h.getLine
  if line.isEmpty then return ()
  let line := (line.dropRightWhile (fun c => c == '\n' || c == '\r'))
  if line.isEmpty || line.startsWith "#" then driverLoop dispatch st h out else
  let (prop, kv) := parseLine line
  let (st', res) := dispatch st prop kv
  out.putStrLn res
  driverLoop dispatch st' h out

def driverMain {σ : Type} (dispatch : σ → String → Line → σ × String) (init : σ) : IO Unit := do
  let out ← IO.getStdout
  driverLoop dispatch init (← IO.getStdin) out
  out.flush
