import Driver.Common
import OidcModel.Spec.C02
import OidcModel.Spec.C02Config
open Kv Drv

namespace Drv.C02

def parseRegistry (l : Line) : List (String × JWK) :=
  (List.range (nat l "st.n")).map fun i =>
    let q := "st." ++ toString i ++ "."
    (str l (q ++ "client"),
     { KeyID := str l (q ++ "kid"), Use := str l (q ++ "use"), kty := parseKty (str l (q ++ "kty")), keyNo := nat l (q ++ "no") })

/-- a signature with go-jose's three header views (`s<i>.alg/kid` merged, `.palg/.pkid` protected, `.ualg/.ukid`
    unprotected); lines of other streams carry only the merged one (compact tokens: all of it is protected) -/
def parseSigX (l : Line) (q : String) : JSig :=
  let s := parseSig l q
  if has l (q ++ "palg") then
    { s with Protected := { Algorithm := str l (q ++ "palg"), KeyID := str l (q ++ "pkid") },
             Unprotected := { Algorithm := str l (q ++ "ualg"), KeyID := str l (q ++ "ukid") } }
  else s

def parseTokenX (l : Line) : Token :=
  let t := parseToken l
  { t with jws := t.jws.map fun j =>
      { j with Signatures := (List.range (nat l "j.n")).map fun i => parseSigX l ("s" ++ toString i ++ ".") } }

/-- key set the statement speaks about for this verifier / token (for a long-lived remote key set: what its
    endpoint served it last, `ks.` on the line) -/
def keySetFor (l : Line) (t : Token) : KeySet :=
  if str l "verifier" == "assertion" && str l "v.ks" != "explicit" then
    let iss := ((t.middle.bind (·.claims)).map (·.iss)).getD ""
    Hand.jwtProfileKeySet (parseRegistry l) iss
  else parseKeySet l "ks."

def obsString (l : Line) : String :=
  if str l "obs" == "ok" then "ok" else if str l "obs" == "panic" then "panic" else "err:" ++ str l "o.err"

/-- a token-consuming ENDPOINT believed the token (`obs=ok`): it handed subject `o.sub` (and token id `o.jti`) to the storage.
    The claims "handed back" are the payload's with the subject the endpoint used; an access token's id must be the payload's `jti`. -/
def endpointObs (l : Line) (t : Token) : Option Claims :=
  if str l "obs" == "ok" then some { (t.middle.bind (·.claims)).getD {} with sub := str l "o.sub" } else none

/-- part 7: the construction call of the provider as the line carries it (`cfg.n`, `cfg.<i>.opt`, the key set handed over
    `cfg.<i>.ks.*`, the lists of a verifier option list `cfg.<i>.m`, `cfg.<i>.l<j>`) -/
def parseCfg (l : Line) : List C02.CfgOpt :=
  (List.range (nat l "cfg.n")).map fun i =>
    let q := "cfg." ++ toString i ++ "."
    let lists := (List.range (nat l (q ++ "m"))).map fun j => list l (q ++ "l" ++ toString j)
    match str l (q ++ "opt") with
    | "atks" => .atKeySet (parseKeySet l (q ++ "ks."))
    | "hintks" => .hintKeySet (parseKeySet l (q ++ "ks."))
    | "atalgs" => .atAlgs lists
    | "hintalgs" => .hintAlgs lists
    | _ => .other

/-- allowed list and key set the statement speaks about at a token-consuming endpoint.  Part 7 (`cfg.n` on the line): what the
    CONSTRUCTION CALL configured for the verifier of this endpoint (Spec/C02Config.lean; `ks.` = what the storage publishes, the
    default).  Parts 5 / 6: the list the harness configured (`v.algs`) and the storage's keys / the named client's registry. -/
def endpointConfig (l : Line) (t : Token) : List String × KeySet :=
  if has l "cfg.n" then
    let cfg := parseCfg l
    let storage := parseKeySet l "ks."
    if str l "verifier" == "hint" then (C02.cfgAlgsHint cfg, C02.cfgKeySetHint storage cfg)
    else (C02.cfgAlgsAT cfg, C02.cfgKeySetAT storage cfg)
  else (list l "v.algs", keySetFor l t)

def monitorEndpoint (l : Line) : Option String :=
  let t := parseTokenX l
  -- the allow-list in force is the one the provider was CONFIGURED with (`v.algs`; empty: the library default)
  -- (an assertion: the library default list and the keys registered for the client the assertion names, `keySetFor`)
  let (algs, ks) := endpointConfig l t
  match C02.monitor algs ks t (endpointObs l t) with
  | some c => some c
  | none =>
    if str l "obs" == "ok" && str l "t.jti" != "" && str l "o.jti" != str l "t.jti" then some "accepted:claims-changed" else none

def monitorLine (l : Line) : Option String :=
  if str l "obs" == "panic" then some "panic" else
  if has l "ep" then monitorEndpoint l else
  if str l "verifier" == "fmk" then
    -- direct key selection: the observed answer must be the one the statement describes
    let ks := parseKeySet l "ks."
    let want := C02.findSpec (str l "kid") "sig" (str l "alg") ks.keys
    match want with
    | .ok k =>
      if str l "obs" == "ok" && ks.keys[nat l "o.idx"]? == some k then none else some "selection:wrong-key-or-error"
    | .error e => if obsString l == "err:" ++ e then none else some ("selection:expected-" ++ e)
  else
    let t := parseTokenX l
    let obs : Option Claims := if str l "obs" == "ok" then some (parseClaims l "o.") else none
    match C02.monitor (list l "v.algs") (keySetFor l t) t obs with
    | none => none
    | some c =>
      -- part 8 (a remote key set fed from a JWKS DOCUMENT, `doc.*`): `ks.` is the harness's own reading of the entries that are valid
      -- JWKs; `ksall.` the same reading of ALL entries that declare key material, valid JWK or not.  The statement does not say which of
      -- the two "the published key set" is: a belief is flagged only if NEITHER reading justifies it.
      if has l "ksall.n" then
        match C02.monitor (list l "v.algs") (parseKeySet l "ksall.") t obs with
        | none => none
        | some _ => some c
      else some c

def stepMon (l : Line) : String :=
  s!"case={str l "case"} model=- observed={obsString l} monitor={showMon (monitorLine l)} agree=1"

end Drv.C02
