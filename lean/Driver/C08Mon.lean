import Driver.FlowMon
import OidcModel.Spec.C08
open Kv Drv

namespace Drv.C08

def presented (l : Line) : _root_.C04.Presented :=
  { clientID := str l "cid", secret := str l "secret", assertion := if str l "auth" == "assertion" then some (parseToken l) else none }

def evOf (l : Line) : Option _root_.C08.Ev :=
  match str l "op" with
  | "issue" => some (.issued { label := str l "label", client := str l "client", subject := str l "sub", audience := list l "aud" })
  | "expire" => some (.expired (str l "label"))
  | "userinfo" => some (.userinfo (str l "tok") (nat l "o.status") (opt l "o.sub"))
  | "introspect" => some (.introspect (presented l) (str l "tok") (nat l "o.status") (bool l "o.active") (list l "o.members"))
  | "revoke" => some (.revoke (presented l) (str l "tok") (nat l "o.status") (bool l "o.performed"))
  | "endsession" => some (.endSession (str l "sub") (str l "client") (nat l "o.status") (bool l "o.terminated"))
  | "exchange" => some (.exchange (str l "tok") (bool l "o.success"))
  | _ => none

def monStep (m : _root_.C08.MonState) (l : Line) : _root_.C08.MonState × Option String :=
  if str l "op" == "reset" then
    ({ base := { issuer := str l "issuer", clients := Drv.Flow.parseClients l, jwtMaxAgeIAT := 3600 * Go.second, jwtOffset := Go.second } }, none)
  else if str l "obs" == "panic" then (m, some "panic")
  else match evOf l with
    | none => (m, none)
    | some e =>
      let now0 := int l "now0"
      let now1 := int l "now1"
      let v := match _root_.C08.judge m now0 e, _root_.C08.judge m now1 e with
        | some a, some _ => some a
        | _, _ => none
      (_root_.C08.update m now0 e, v)

def cls (l : Line) : String :=
  s!"{str l "op"}:{str l "p.kind"}:{nat l "o.status"}:{if bool l "o.active" then "active" else ""}{if bool l "o.success" then "accepted" else ""}"

def stepMon (m : _root_.C08.MonState) (l : Line) : _root_.C08.MonState × String :=
  let (m', v) := monStep m l
  (m', s!"case={str l "case"} class={cls l} model=- observed={nat l "o.status"} monitor={showMon v} agree=1")

end Drv.C08
