import Driver.FlowMon
import OidcModel.Spec.C08
open Kv Drv

namespace Drv.C08

def presented (l : Line) : _root_.C04.Presented :=
  { clientID := str l "cid", secret := str l "secret", assertion := if str l "auth" == "assertion" then some (parseToken l) else none }

def tokOf (l : Line) (label : String) (refresh : Bool) : _root_.C08.Tok :=
  { label := label, client := str l "client", subject := str l "sub", audience := list l "aud", issuer := str l "iss",
    refresh := refresh, jwt := bool l "jwt" && !refresh, grant := str l "grant", exp := int l (if refresh then "rtexp" else "exp") }

/-- the observable events of a line (a token response hands out an access token and possibly a refresh token) -/
def evsOf (l : Line) : List _root_.C08.Ev :=
  match str l "op" with
  | "issue" => [.issued (tokOf l (str l "label") false)] ++ (if str l "rtlabel" != "" then [.issued (tokOf l (str l "rtlabel") true)] else [])
  | "expire" => [.expired (str l "label")]
  | "userinfo" => [.userinfo (str l "iss") (str l "tok") (nat l "o.status") (opt l "o.sub") ((opt l "o.sub").isSome || list l "o.claims" != [])]
  | "introspect" => [.introspect (str l "iss") (presented l) (str l "tok") (nat l "o.status") (bool l "o.active") (list l "o.members")]
  | "revoke" => [.revoke (str l "iss") (presented l) (str l "tok") (nat l "o.status") (bool l "o.performed") (str l "fault" != "") (!(has l "o.effect") || bool l "o.effect")
                  (!(has l "o.usable") || bool l "o.usable")]
  | "endsession" => [.endSession (str l "iss") (str l "sub") (str l "client") (nat l "o.status") (bool l "o.terminated")]
  | "exchange" => [.exchange (str l "iss") (str l "tok") (bool l "o.success") (has l "atok") (str l "atok")]
  | "refresh" => [.refresh (str l "iss") (str l "tok") (bool l "o.success") (bool l "o.rotated")]
  | _ => []

def monStep (m : _root_.C08.MonState) (l : Line) : _root_.C08.MonState × Option String :=
  if str l "op" == "reset" then
    ({ base := { issuer := str l "issuer", clients := Drv.Flow.parseClients l, jwtMaxAgeIAT := 3600 * Go.second, jwtOffset := Go.second }, flat := bool l "flat" }, none)
  else if str l "obs" == "panic" then (m, some "panic")
  else
    let now0 := int l "now0"
    let now1 := int l "now1"
    (evsOf l).foldl (fun (acc : _root_.C08.MonState × Option String) e =>
      let v := match _root_.C08.judge acc.1 now0 e, _root_.C08.judge acc.1 now1 e with
        | some a, some _ => some a
        | _, _ => none
      (_root_.C08.update acc.1 now0 e, acc.2 <|> v)) (m, none)

def cls (l : Line) : String :=
  s!"{str l "op"}{if has l "atok" then "+actor" else ""}:{str l "p.kind"}:{if bool l "cross" then "x-issuer" else ""}:{nat l "o.status"}:{if bool l "o.active" then "active" else ""}{if bool l "o.success" then "accepted" else ""}"

def stepMon (m : _root_.C08.MonState) (l : Line) : _root_.C08.MonState × String :=
  let (m', v) := monStep m l
  (m', s!"case={str l "case"} class={cls l} model=- observed={nat l "o.status"} monitor={showMon v} agree=1")

end Drv.C08
