import Driver.C15Mon
import OidcModel.Generated.TokenExchangeTE
import OidcModel.Model.Flow
open Kv Drv

namespace Drv.C15

/-- `k=a,b,` as an optional pair -/
def pair? (l : Line) (k : String) : Option (String × String) :=
  match list l k with
  | [a, b] => some (a, b)
  | _ => none

/-- oracle answer for token label `t` under key suffix `k`: the subject's (`s.`) or the actor's (`a.`) line entries -/
def pfxOf (l : Line) (t : String) : Option String :=
  if t == str l "s.tok" && t != "" then some "s." else if t == str l "a.tok" && t != "" then some "a." else none

/-- Lean twin of the reference storage's exchange policy (harness/internal/refstore TEPart.ValidateTokenExchangeRequest) -/
def policy (l : Line) (r : TEReq) : Go.R TEReq :=
  let live := list l "live"
  let dflt := if str l "st.default" == "" then _root_.C15.tRefresh else str l "st.default"
  let r := if r.requestedTokenType == "" then { r with requestedTokenType := dflt } else r
  if r.exchangeSubjectTokenType == _root_.C15.tID && r.requestedTokenType == _root_.C15.tRefresh then .error "ErrInvalidRequest" else
  let imp := r.scopes.filterMap fun s => if Go.hasPrefix s "custom_scope:impersonate:" then some (String.ofList (s.toList.drop "custom_scope:impersonate:".length)) else none
  let r := { r with subject := imp.getLast?.getD r.subject, scopes := r.scopes.filter (· != "address") }
  if r.exchangeSubjectTokenType == _root_.C15.tAccess && !live.contains r.exchangeSubjectTokenIDOrToken then .error "ErrInvalidRequest"
  else if r.exchangeActorTokenType == _root_.C15.tAccess && (r.exchangeActorTokenIDOrToken != "" || r.exchangeActor != "") && !live.contains r.exchangeActorTokenIDOrToken then .error "ErrInvalidRequest"
  else if r.exchangeSubject == "blocked-user" || r.subject == "blocked-user" then .error "ErrInvalidRequest"
  else .ok r

/-- the provider of one line: registry as in C05, every library / storage answer from the line's oracle entries -/
def providerOf (l : Line) : TEProvider :=
  let cfg := Drv.C05.cfgOf l
  let answer (k : String) (t : String) : Option (String × String) := (pfxOf l t).bind fun p => pair? l (p ++ k)
  { base := { store := { clients := cfg.base.clients }, issuer := str l "issuer", postSupported := true, pkjwtSupported := true },
    Crypto := { Decrypt := fun t => match pfxOf l t with
      | some p => if bool l (p ++ "decok") then .ok (str l (p ++ "dec")) else .error "decrypt"
      | none => .error "decrypt" },
    AccessTokenVerifier := { verify := fun t => match answer "jwt" t with
      | some (jti, sub) => .ok { set := true, JWTID := jti, Subject := sub }
      | none => .error "invalid" },
    IDTokenHintVerifier := { verify := fun t => match answer "hint" t with
      | some ("valid", sub) => .ok (.valid { Subject := sub })
      | some (_, sub) => .ok (.expired { Subject := sub })
      | none => .error "invalid" },
    Storage :=
      { is_TokenExchangeStorage := cfg.capTE, is_TokenExchangeTokensVerifierStorage := bool l "cap.tev",
        TokenRequestByRefreshToken := fun t => match (pfxOf l t).map fun p => list l (p ++ "rt") with
          | some [sub] => .ok { subject := sub }
          | _ => .error "ErrInvalidRefreshToken",
        VerifyExchangeSubjectToken := fun t _ => match answer "vs" t with
          | some (id, sub) => .ok (id, sub, [])
          | none => .error "not accepted as subject token",
        VerifyExchangeActorToken := fun t _ => match answer "va" t with
          | some (id, sub) => .ok (id, sub, [])
          | none => .error "not accepted as actor token",
        ValidateTokenExchangeRequest := policy l } }

/-- the regenerated chain (GenTE) on the line's request; both routers -/
def modelLine (l : Line) : String :=
  let now := int l "now0"
  let p := providerOf l
  let hasAssertion := str l "auth" == "assertion"
  let rq : TEIn :=
    { SubjectToken := str l "s.tok", SubjectTokenType := str l "s.type", ActorToken := if str l "a.kind" == "none" then "" else str l "a.tok",
      ActorTokenType := str l "a.type", RequestedTokenType := str l "req.type", Scopes := list l "scopes",
      Audience := list l "aud", Resource := list l "res" }
  let code (e : String) : String := "err:" ++ (match e with
      | "ErrInvalidRequest" => "invalid_request" | "ErrInvalidClient" => "invalid_client"
      | "ErrUnauthorizedClient" => "unauthorized_client" | "ErrUnsupportedGrantType" => "unsupported_grant_type" | _ => "server_error")
  let respond (r : TEReq) (c : OPClient) : String :=
    match GenTE.CreateTokenExchangeResponse now r c p with
    | .error e => code e
    | .ok resp => s!"ok:{short resp.IssuedTokenType}:sub={r.subject}:act={r.exchangeActor}:rt={if resp.RefreshToken != "" then 1 else 0}"
  if str l "router" == "legacy" then
    -- Server router: withClient (VerifyClient + registered grant), the handler's parameter checks, then LegacyServer.TokenExchange
    let cc : ClientCredentials :=
      { ClientID := str l "cid", ClientSecret := str l "secret",
        ClientAssertionType := if hasAssertion then Const.ClientAssertionTypeJWTAssertion else "",
        ClientAssertion := if hasAssertion then parseToken l else default }
    match Flow.withClient now p.base Const.GrantTypeTokenExchange cc hasAssertion with
    | .error e => code e
    | .ok c =>
      if rq.SubjectToken == "" then "err:invalid_request"
      else if rq.SubjectTokenType == "" || !rq.SubjectTokenType.IsSupported then "err:invalid_request"
      else if rq.RequestedTokenType != "" && !rq.RequestedTokenType.IsSupported then "err:invalid_request"
      else if rq.ActorTokenType != "" && !rq.ActorTokenType.IsSupported then "err:invalid_request"
      else if !p.Storage.is_TokenExchangeStorage then "err:unsupported_grant_type"
      else match GenTE.CreateTokenExchangeRequest now rq c p with
        | .error e => code e
        | .ok r => respond r c
  else
  if !p.Storage.is_TokenExchangeStorage then "err:unsupported_grant_type" else
  -- Provider router: the credentials are those of the Basic header only
  let (id, sec) := if str l "auth" == "basic" then (str l "cid", str l "secret") else ("", "")
  match GenTE.ValidateTokenExchangeRequest now rq id sec p with
  | .error e => code e
  | .ok (r, c) => respond r c

def step (l : Line) : String :=
  let m := modelLine l
  let o := showObs l
  s!"case={str l "case"} class={cls l} model={m} observed={o} monitor={showMon (monitorLine l)} agree={if m == o then 1 else 0}"

end Drv.C15
