import Driver.C15Mon
import OidcModel.Generated.TokenExchange
import OidcModel.Model.Flow
open Kv Drv

namespace Drv.C15

/-- the regenerated validation + response functions, with token resolution and the storage policy fed in as oracles -/
def modelLine (l : Line) : String :=
  let cfg := Drv.C05.cfgOf l
  let p : Provider := { store := { clients := cfg.base.clients }, issuer := str l "issuer", postSupported := true, pkjwtSupported := true }
  let rq : TokenExchangeIn :=
    { SubjectToken := "presented", SubjectTokenType := str l "s.type", ActorToken := if str l "a.kind" == "none" then "" else "actor",
      ActorTokenType := str l "a.type", RequestedTokenType := str l "req.type", Scopes := (list l "scopes").filter (· != "address"),
      subjectResolves := if bool l "s.live" then some { idOrToken := "x", subject := str l "s.sub" } else none,
      actorResolves := if bool l "a.live" then some { idOrToken := "y", subject := "actor" } else none,
      storageAccepts := !bool l "veto", storageDefaultType := _root_.C15.tRefresh }
  let code (e : String) : String := "err:" ++ (match e with
      | "ErrInvalidRequest" => "invalid_request" | "ErrInvalidClient" => "invalid_client"
      | "ErrUnauthorizedClient" => "unauthorized_client" | "ErrUnsupportedGrantType" => "unsupported_grant_type" | _ => "server_error")
  let respond (r : ExchangeReq) (c : OPClient) : String :=
    match Gen.CreateTokenExchangeResponse 0 r c p with
    | .error _ => "err:invalid_request"
    | .ok resp => "ok:" ++ resp.IssuedTokenType.replace "urn:ietf:params:oauth:token-type:" ""
  if str l "router" == "legacy" then
    -- Server router: withClient (VerifyClient + registered grant), the handler's parameter checks, then LegacyServer.TokenExchange
    let cc : ClientCredentials := { ClientID := str l "cid", ClientSecret := str l "secret" }
    match Flow.withClient 0 p Const.GrantTypeTokenExchange cc false with
    | .error e => code e
    | .ok c =>
      if rq.SubjectTokenType == "" || !rq.SubjectTokenType.IsSupported then "err:invalid_request"
      else if rq.RequestedTokenType != "" && !rq.RequestedTokenType.IsSupported then "err:invalid_request"
      else if rq.ActorTokenType != "" && !rq.ActorTokenType.IsSupported then "err:invalid_request"
      else if !cfg.capTE then "err:unsupported_grant_type"
      else match Hand.CreateTokenExchangeRequest 0 rq c p with
        | .error e => code e
        | .ok r => respond r c
  else
  if !cfg.capTE then "err:unsupported_grant_type" else
  match Gen.ValidateTokenExchangeRequest 0 rq (str l "cid") (str l "secret") p with
  | .error e => code e
  | .ok (r, c) => respond r c

def step (l : Line) : String :=
  let m := modelLine l
  let o := if str l "obs" == "ok" then "ok:" ++ (str l "o.issued").replace "urn:ietf:params:oauth:token-type:" "" else "err:" ++ str l "o.err"
  s!"case={str l "case"} class={cls l} model={m} observed={o} monitor={showMon (monitorLine l)} agree={if m == o then 1 else 0}"

end Drv.C15
