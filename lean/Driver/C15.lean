import Driver.C15Mon
import OidcModel.Generated.TokenExchangeTE
import OidcModel.Model.Flow
open Kv Drv

namespace Drv.C15

/-- `k=a,b,` as an optional pair -/
def pair? (l : Line) (k : String) : Option (String × String) :=
  match list l k with
  | [a, b] => some (a, b)
  | _ => none

/-- oracle answer for token label `t` under key suffix `k`: the subject's (`s.`) or the actor's (`a.`) line entries -/
def pfxOf (l : Line) (t : String) : Option String :=
  if t == str l "s.tok" && t != "" then some "s." else if t == str l "a.tok" && t != "" then some "a." else none

/-- Lean twin of the reference storage's exchange policy (harness/internal/refstore TEPart.ValidateTokenExchangeRequest) -/
def policy (l : Line) (r : TEReq) : Go.R TEReq :=
  let live := list l "live"
  let dflt := if str l "st.default" == "" then _root_.C15.tRefresh else str l "st.default"
  let r := if r.requestedTokenType == "" then { r with requestedTokenType := dflt } else r
  if r.exchangeSubjectTokenType == _root_.C15.tID && r.requestedTokenType == _root_.C15.tRefresh then .error "ErrInvalidRequest" else
  let imp := r.scopes.filterMap fun s => if Go.hasPrefix s "custom_scope:impersonate:" then some (String.ofList (s.toList.drop "custom_scope:impersonate:".length)) else none
  let r := { r with subject := imp.getLast?.getD r.subject, scopes := r.scopes.filter (· != "address") }
  -- `pol=trust` (deep4): the trusting policy of c15store.go - the same decisions WITHOUT the lookup of a presented access token's id
  let lookup := str l "pol" != "trust"
  if lookup && r.exchangeSubjectTokenType == _root_.C15.tAccess && !live.contains r.exchangeSubjectTokenIDOrToken then .error "ErrInvalidRequest"
  else if lookup && r.exchangeActorTokenType == _root_.C15.tAccess && (r.exchangeActorTokenIDOrToken != "" || r.exchangeActor != "") && !live.contains r.exchangeActorTokenIDOrToken then .error "ErrInvalidRequest"
  else if r.exchangeSubject == "blocked-user" || r.subject == "blocked-user" then .error "ErrInvalidRequest"
  else .ok r

/-- Lean twin of the reference storage's actor decision (c15store.go / refstore.exchangeClaims): delegation - the resolved actor;
    impersonation (scope, no actor) - the exchange subject -/
def policyActor (r : TEReq) : String :=
  if r.exchangeActor != "" then r.exchangeActor
  else if r.scopes.any (fun s => Go.hasPrefix s "custom_scope:impersonate:") then r.exchangeSubject else ""

/-- deep5: Lean twin of the exchange storage's policy for the `act` member (c15store.go `c15PolicyAct`; the table is the monitor's
    `C15.actValue`), applied to what the framework handed the hook: the request's resolved actor / exchange subject / client -/
def policyAct (l : Line) (r : TEReq) : String :=
  _root_.C15.actValue (if has l "actpol" then str l "actpol" else "flat") (policyActor r) r.exchangeSubject r.clientID

/-- the `act` member of the marshalled token: the registered `Actor` field (a request's own `GetActor()`, were there one) is decoded
    OVER the custom claims (`mergeAndMarshalClaims`: registered wins, C12) - else the custom claims' `act` -/
def wireAct (actor : String) (c : TEClaims) : String :=
  if actor != "" then _root_.C15.actValue "flat" actor "" "" else ((c.find? (·.1 == "act")).map (·.2)).getD ""

def claim (c : TEClaims) (k : String) : String := ((c.find? (·.1 == k)).map (·.2)).getD ""

/-- the provider of one line: registry as in C05, every library / storage answer from the line's oracle entries -/
def providerOf (l : Line) : TEProvider :=
  let cfg := Drv.C05.cfgOf l
  let answer (k : String) (t : String) : Option (String × String) := (pfxOf l t).bind fun p => pair? l (p ++ k)
  { base := { store := { clients := cfg.base.clients }, issuer := str l "issuer", postSupported := true, pkjwtSupported := true },
    Crypto := { Encrypt := fun _ => .ok "opaque", Decrypt := fun t => match pfxOf l t with
      | some p => if bool l (p ++ "decok") then .ok (str l (p ++ "dec")) else .error "decrypt"
      | none => .error "decrypt" },
    AccessTokenVerifier := { verify := fun t => match answer "jwt" t with
      | some (jti, sub) => .ok { set := true, JWTID := jti, Subject := sub }
      | none => .error "invalid" },
    IDTokenHintVerifier := { verify := fun t => match answer "hint" t with
      | some ("valid", sub) => .ok (.valid { Subject := sub })
      | some (_, sub) => .ok (.expired { Subject := sub })
      | none => .error "invalid" },
    Storage :=
      { is_TokenExchangeStorage := cfg.capTE, is_TokenExchangeTokensVerifierStorage := bool l "cap.tev",
        TokenRequestByRefreshToken := fun t => match (pfxOf l t).map fun p => list l (p ++ "rt") with
          | some [sub] => .ok { subject := sub }
          | _ => .error "ErrInvalidRefreshToken",
        VerifyExchangeSubjectToken := fun t _ => match answer "vs" t with
          | some (id, sub) => .ok (id, sub, [])
          | none => .error "not accepted as subject token",
        VerifyExchangeActorToken := fun t _ => match answer "va" t with
          | some (id, sub) => .ok (id, sub, [])
          | none => .error "not accepted as actor token",
        ValidateTokenExchangeRequest := policy l,
        -- the three hooks that can supply the private claims of a JWT access token mark their answer; the exchange hook decides the actor
        is_CanGetPrivateClaimsFromRequest := bool l "cap.pc",
        GetPrivateClaimsFromTokenExchangeRequest := fun a => .ok [("src", "exchange"), ("act", policyAct l a.req)],
        GetPrivateClaimsFromRequest := fun _ _ => .ok [("src", "request")],
        GetPrivateClaimsFromScopes := fun _ _ _ => .ok [("src", "scopes")],
        SigningKey := .ok { signAT := fun c => .ok s!"jwt({c.Subject}|{wireAct c.Actor c.Claims}|{claim c.Claims "src"})",
                            signID := fun c => .ok s!"id({c.Subject}|{wireAct c.Actor c.UserInfo.Claims}|{claim c.UserInfo.Claims "src"})" },
        -- likewise the hooks that can fill the userinfo of an ID token (the reference storage sets the subject for the scope openid)
        is_CanSetUserinfoFromRequest := bool l "cap.ui",
        SetUserinfoFromTokenExchangeRequest := fun u a => .ok { u with Subject := if a.req.scopes.contains "openid" then a.req.subject else u.Subject,
                                                                       Claims := [("src", "exchange"), ("act", policyAct l a.req)] },
        SetUserinfoFromRequest := fun u _ _ => .ok { u with Claims := [("src", "request")] },
        ClientAccessTokenType := fun c => if c.id == "px" && bool l "px.jwt" then TEConst.AccessTokenTypeJWT else 0 } }

/-- the regenerated chain (GenTE) on the line's request; both routers -/
def modelLine (l : Line) : String :=
  let now := int l "now0"
  let p := providerOf l
  let hasAssertion := str l "auth" == "assertion"
  let rq : TEIn :=
    { SubjectToken := str l "s.tok", SubjectTokenType := str l "s.type", ActorToken := if str l "a.kind" == "none" then "" else str l "a.tok",
      ActorTokenType := str l "a.type", RequestedTokenType := str l "req.type", Scopes := list l "scopes",
      Audience := list l "aud", Resource := list l "res" }
  let code (e : String) : String := "err:" ++ (match e with
      | "ErrInvalidRequest" => "invalid_request" | "ErrInvalidClient" => "invalid_client"
      | "ErrUnauthorizedClient" => "unauthorized_client" | "ErrUnsupportedGrantType" => "unsupported_grant_type" | _ => "server_error")
  -- the response alone does not show on whose behalf the storage policy was asked: those two come from the request that went through
  let reqOf (c : OPClient) : TEReq := (GenTE.CreateTokenExchangeRequest now rq c p).toOption.getD {}
  let show2 (r : TEReq) (resp : ExchangeResp) : String :=
    s!"ok:{short resp.IssuedTokenType}:sub={r.subject}:act={r.exchangeActor}:rt={if resp.RefreshToken != "" then 1 else 0}:tok={resp.AccessToken}"
  let respond (r : TEReq) (c : OPClient) : String :=
    match GenTE.CreateTokenExchangeResponse now r c p with
    | .error e => code e
    | .ok resp => show2 r resp
  if str l "router" == "legacy" then
    -- Server router: withClient (VerifyClient + registered grant), the handler's parameter checks, then LegacyServer.TokenExchange
    let cc : ClientCredentials :=
      { ClientID := str l "cid", ClientSecret := str l "secret",
        ClientAssertionType := if hasAssertion then Const.ClientAssertionTypeJWTAssertion else "",
        ClientAssertion := if hasAssertion then parseToken l else default }
    match Flow.withClient now p.base Const.GrantTypeTokenExchange cc hasAssertion with
    | .error e => code e
    | .ok c =>
      -- the REGENERATED handler `webServer.tokenExchangeHandler` -> `LegacyServer.TokenExchange`
      match GenTE.tokenExchangeHandler now { server := { provider := p } } { form := .ok rq } c with
      | .error e => code e
      | .ok resp => show2 (reqOf c) resp
  else
  if !GenTE.GrantTypeTokenExchangeSupported now p then "err:unsupported_grant_type" else   -- the `Exchange` dispatcher's own test
  -- Provider router: the credentials are those of the Basic header only
  let (id, sec) := if str l "auth" == "basic" then (str l "cid", str l "secret") else ("", "")
  match GenTE.ValidateTokenExchangeRequest now rq id sec p with
  | .error e => code e
  | .ok (r, c) => respond r c

def step (l : Line) : String :=
  let m := modelLine l
  let o := showObs l
  s!"case={str l "case"} class={cls l} model={m} observed={o} monitor={showMon (monitorLine l)} agree={if m == o then 1 else 0}"

end Drv.C15
