import Driver.C18Mon
import OidcModel.Model.SessionFlow
open Kv Drv

namespace Drv.C18

def oraclesOf (l : Line) : SessOracles :=
  { pathMatch := pathMatchOf l, urlParse := urlParseOf l, tokenOf := fun _ => parseToken l }

def keyOptsOf (l : Line) : List Sess.KeyOpt :=
  (parseOpts l).map fun o => if o.1 == "hint" then Sess.KeyOpt.idTokenHint o.2 else Sess.KeyOpt.accessToken o.2

/-- the provider as the REGENERATED `NewProvider` wiring builds it from the storage-backed key set and the options of the line -/
def enderOf (l : Line) (termOK : String → String → Bool) : SessionEnder :=
  Sess.constructedEnder 0 (str l "issuer") (parseKeySet l "ks.") (keyOptsOf l) []
    { clients := parseClients l, termOK := termOK, lookupOK := fun _ => !bool l "lookupfail",
      is_CanTerminateSessionFromRequest := bool l "termfromreq" } (str l "default")

def modelReq (l : Line) : Go.R EndSessionReq :=
  if bool l "formerr" then .error "form" else
  .ok { IdTokenHint := if bool l "hint" then "hint" else "", ClientID := str l "cid", PostLogoutRedirectURI := str l "plu", State := str l "state" }

def routerOf (l : Line) : Sess.Router := if str l "router" == "legacy" then .legacy else .provider

/-- the model's answer; the session it terminates is read off the regenerated `ValidateEndSessionRequest` and
    confirmed by running the handler against a storage that allows ONLY that session -/
def modelString (l : Line) (now : Int) : String :=
  let o := oraclesOf l
  let tf := bool l "termfail"
  match Sess.handle (routerOf l) now o (modelReq l) (enderOf l fun _ _ => !tf) with
  | .redirect loc =>
    let sess : Option (String × String) :=
      match modelReq l with
      | .ok r => match Gen.ValidateEndSessionRequest now o r (enderOf l fun _ _ => true) with
        | .ok s => some (s.UserID, s.ClientID)
        | .error _ => none
      | .error _ => none
    let t := match sess with
      | some (u, c) =>
        (match Sess.handle (routerOf l) now o (modelReq l) (enderOf l fun u' c' => u' == u && c' == c) with
         | .redirect _ => showTerm [(u, c)]
         | .error _ _ => "(?)")
      | none => "(?)"
    "redirect:" ++ esc loc ++ "|term:" ++ t
  | .error st code => "err:" ++ toString st ++ ":" ++ code

def step (l : Line) : String :=
  let m0 := modelString l (int l "now0")
  let m1 := modelString l (int l "now1")
  let obsS := obsString l
  let agree := m0 == obsS && m1 == obsS
  s!"case={str l "case"} class={str l "kind"}:{obsClass l} model={m0} observed={obsS} monitor={showMon (monitorLine l)} agree={if agree then 1 else 0}"

end Drv.C18
