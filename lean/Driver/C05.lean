import Driver.C05Mon
import OidcModel.Model.EndpointFlow
open Kv Drv

namespace Drv.C05

/-- the reference store as far as this one request can see it: registrations, the authorization request behind the code,
    the refresh token, the device authorization of the request -/
def storeOf (l : Line) : Store :=
  let ch : Option CodeChallenge := if has l "ar.chal.m" then some { Challenge := str l "ar.chal.c", Method := str l "ar.chal.m" } else none
  { clients := Drv.Flow.parseClients l,
    authReqs := if has l "ar.id" then
      [{ id := str l "ar.id", clientID := str l "ar.client", redirectURI := str l "ar.redirect", scopes := list l "ar.scopes",
         subject := str l "ar.sub", done := bool l "ar.done", challenge := ch }] else [],
    codes := if has l "ar.id" then [(str l "ar.code", str l "ar.id")] else [],
    refresh := if has l "rt.token" then
      [{ token := str l "rt.token", clientID := str l "rt.client", subject := str l "rt.sub", scopes := list l "rt.scopes" }] else [] }

/-- what the grant logic behind authentication answers for THIS request's (genuine) material -/
def grantOf (l : Line) : EPGrant :=
  let clients := Drv.Flow.parseClients l
  let tokClient := str l "g.tok.client"
  let aud := list l "g.intro.aud"
  { ccTokenRequest := fun id => if clients.any (·.id == id) then .ok () else .error "client not found",
    teRequest := fun _ => if bool l "g.te" then .ok () else .error "ErrInvalidRequest",
    tokenDecodes := fun t => t != "" && has l "g.tok.client",
    introspect := fun _ cid => if aud.contains cid then .ok () else .error "token is not valid for this client",
    refreshInfo := fun _ _ => if bool l "g.rt" then .ok () else .error "ErrInvalidRefreshToken",
    revoke := fun _ cid => if !has l "g.tok.client" || cid == tokClient then .ok () else .error "ErrInvalidClient",
    createDevice := fun id => if clients.any (·.id == id) then .ok () else .error "status500:client not found" }

def providerOf (l : Line) : EPProvider :=
  { config := { AuthMethodPost := bool l "post", AuthMethodPrivateKeyJWT := bool l "pkjwt", GrantTypeRefreshToken := bool l "refresh" },
    issuer := str l "issuer",
    storage := { base := storeOf l,
                 devices := if has l "dev.code" then
                   [{ deviceCode := str l "dev.code", state := { ClientID := str l "dev.client", Done := bool l "dev.done", Scopes := ["openid"], Subject := "user1" } }] else [],
                 is_TokenExchangeStorage := bool l "cap.te", is_ClientCredentialsStorage := bool l "cap.cc",
                 is_DeviceAuthorizationStorage := bool l "cap.device", secretCompareOnly := bool l "st.cmp", g := grantOf l } }

def epEndpointOf (l : Line) : EP.Endpoint :=
  match str l "endpoint" with
  | "introspect" => .introspect
  | "revoke" => .revoke
  | "device_authorization" => .deviceAuthorization
  | _ => .token

def routerOf (l : Line) : Flow.Router := if str l "router" == "legacy" then .legacy else .provider

def showResp (r : EPResp) : String :=
  match r with
  | .ok (.tokens _ c) => "success:" ++ c
  | .ok (.introspection true c) => "success:" ++ c
  | .ok (.introspection false _) => "refused:200:"
  | .ok (.revoked c) => "success:" ++ c
  | .ok (.deviceCodes c) => "success:" ++ c
  | r => "refused:" ++ toString r.status ++ ":" ++ r.errorCode

def modelAt (l : Line) (now : Int) : String :=
  showResp (EP.endpointDecision now (routerOf l) (providerOf l) (oraclesOf l) (epEndpointOf l) (requestOf l))

def stepFull (l : Line) : String :=
  let m0 := modelAt l (int l "now0")
  let m1 := modelAt l (int l "now1")
  let obs := obsString l
  let m := if m1 == obs then m1 else m0
  let m := if wireAgrees l then m else "wire-parse-differs-from-net/http:" ++ m
  s!"case={str l "case"} class={classOf l} model={m} observed={obs} monitor={showMon (monitorLine l)} agree={if m == obs then 1 else 0}"

end Drv.C05
