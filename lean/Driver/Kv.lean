/-
  Line protocol helpers (core only).  A line is `<PROP> key=value key=value …`; values are
  %XX-escaped (space, %, comma, =, and anything non-printable); lists are written as elements each
  followed by a comma (`a,b,` = ["a","b"], `` = [], `,` = [""]).
-/
namespace Kv

def hexVal (c : Char) : Option Nat :=
  if '0' ≤ c ∧ c ≤ '9' then some (c.toNat - '0'.toNat)
  else if 'a' ≤ c ∧ c ≤ 'f' then some (c.toNat - 'a'.toNat + 10)
  else if 'A' ≤ c ∧ c ≤ 'F' then some (c.toNat - 'A'.toNat + 10)
  else none

/-- %XX unescape on bytes, result re-read as UTF-8 (lossy) -/
def unescapeBytes : List Char → List UInt8
  | '%' :: a :: b :: rest =>
    match hexVal a, hexVal b with
    | some x, some y => UInt8.ofNat (x * 16 + y) :: unescapeBytes rest
    | _, _ => '%'.toNat.toUInt8 :: unescapeBytes (a :: b :: rest)
  | c :: rest => (String.singleton c).toUTF8.toList ++ unescapeBytes rest
  | [] => []

def unescape (s : String) : String :=
  let bs := ByteArray.mk (unescapeBytes s.toList).toArray
  match String.fromUTF8? bs with
  | some r => r
  | none => String.join (bs.toList.map fun b =>
      if b.toNat < 128 then String.singleton (Char.ofNat b.toNat)     -- ASCII stays itself (':' must survive)
      else "\\x" ++ String.singleton (Nat.digitChar (b.toNat / 16)) ++ String.singleton (Nat.digitChar (b.toNat % 16)))

abbrev Line := List (String × String)

def parseLine (s : String) : String × Line :=
  match (s.splitOn " ").filter (· ≠ "") with
  | [] => ("", [])
  | hd :: rest =>
    (hd, rest.map fun tok =>
      match tok.splitOn "=" with
      | [k] => (k, "")
      | k :: v => (k, "=".intercalate v)
      | [] => ("", ""))

def raw (l : Line) (k : String) : Option String := (l.find? (·.1 == k)).map (·.2)
def str (l : Line) (k : String) : String := unescape ((raw l k).getD "")
def has (l : Line) (k : String) : Bool := (raw l k).isSome
def int (l : Line) (k : String) : Int := ((raw l k).getD "0").toInt?.getD 0
def nat (l : Line) (k : String) : Nat := ((raw l k).getD "0").toNat?.getD 0
def bool (l : Line) (k : String) : Bool := (raw l k).getD "" == "1" || (raw l k).getD "" == "true"
def list (l : Line) (k : String) : List String :=
  let parts := ((raw l k).getD "").splitOn ","
  (parts.dropLast).map unescape
/-- optional string: key absent ⇒ none -/
def opt (l : Line) (k : String) : Option String := (raw l k).map unescape

def escChar (c : Char) : String :=
  if c.isAlphanum || c == '-' || c == '_' || c == '.' || c == ':' || c == '/' || c == '#' || c == '{' || c == '}' then String.singleton c
  else String.join ((String.singleton c).toUTF8.toList.map fun b =>
    "%" ++ String.singleton (Nat.digitChar (b.toNat / 16)).toUpper ++ String.singleton (Nat.digitChar (b.toNat % 16)).toUpper)
def esc (s : String) : String := String.join (s.toList.map escChar)
def escList (l : List String) : String := String.join (l.map fun x => esc x ++ ",")

end Kv
