import Driver.Common
import OidcModel.Spec.C07
open Kv Drv

namespace Drv.Flow

def parseClient (l : Line) (p : String) : OPClient :=
  { id := str l (p ++ "id"), secret := str l (p ++ "secret"), app := nat l (p ++ "app"), auth := str l (p ++ "auth"),
    grants := list l (p ++ "grants"), redirectURIs := list l (p ++ "redirects"), devMode := bool l (p ++ "dev"),
    respTypes := list l (p ++ "resptypes"),
    globs := if has l (p ++ "globs") then some (list l (p ++ "globs")) else none,
    postLogoutURIs := list l (p ++ "postlogout"),
    postLogoutGlobs := if has l (p ++ "plglobs") then some (list l (p ++ "plglobs")) else none,
    keys := if has l (p ++ "k.no") then
      [{ KeyID := str l (p ++ "k.kid"), Use := "sig", kty := parseKty (str l (p ++ "k.kty")), keyNo := nat l (p ++ "k.no") }] else [] }

def parseClients (l : Line) : List OPClient :=
  (List.range (nat l "cl.n")).map fun i => parseClient l ("cl." ++ toString i ++ ".")

/-- observer state of the flow monitors (built from OBSERVED responses only) -/
structure MonSt where
  m04 : C04.MonState := {}
  m07 : C07.MonState := {}
  reqs : List AuthReq := []         -- authorization requests the provider accepted, with what the observer knows
  deriving Inhabited

def presented (l : Line) : C04.Presented :=
  { clientID := str l "cid", secret := str l "secret",
    assertion := if str l "auth" == "assertion" then some (parseToken l) else none,
    code := str l "code", redirectURI := str l "redirect", verifier := str l "verifier" }

def journalHas (l : Line) (pfx : String) : Bool := (list l "journal").any (fun j => j.startsWith pfx)

/-- one observed line: returns new monitor state and verdicts (C04 clause, C07 clause) -/
def monStep (ms : MonSt) (l : Line) : MonSt × Option String × Option String :=
  match str l "op" with
  | "reset" =>
    let base : C04.MonState := { issuer := str l "issuer", clients := parseClients l, jwtMaxAgeIAT := 3600 * Go.second, jwtOffset := Go.second }
    ({ m04 := base, m07 := { base := base, refreshEnabled := bool l "refresh" }, reqs := [] }, none, none)
  | "authorize" =>
    if str l "obs" == "login" then
      let ch : Option CodeChallenge := if has l "chal.m" then some { Challenge := str l "chal.c", Method := str l "chal.m" } else none
      let a : AuthReq := { id := str l "o.id", clientID := str l "client", redirectURI := str l "redirect", scopes := list l "scopes",
                           nonce := str l "nonce", state := str l "state", challenge := ch }
      ({ ms with reqs := ms.reqs ++ [a] }, none, none)
    else (ms, none, none)
  | "login" =>
    ({ ms with reqs := ms.reqs.map fun a => if a.id == str l "id" then { a with done := true, subject := str l "sub", authTime := int l "authtime" } else a }, none, none)
  | "callback" =>
    if str l "obs" == "code" then
      match ms.reqs.find? (·.id == str l "id") with
      | some a => ({ ms with m04 := C04.onCallback ms.m04 (str l "o.code") a }, if a.done then none else some "code-for-uncompleted-request", none)
      | none => (ms, some "code-for-unknown-request", none)
    else (ms, none, none)
  | "exchange" =>
    if str l "obs" == "panic" then (ms, some "panic", none) else
    let p := presented l
    let obs : Option C04.Tokens := if str l "obs" == "ok" then
      some { subject := str l "o.sub", client := str l "o.client", scopes := list l "o.scopes", nonce := str l "o.nonce" } else none
    let v0 := C04.judge ms.m04 (int l "now0") p obs
    let v1 := C04.judge ms.m04 (int l "now1") p obs
    let v := if v0.isSome && v1.isSome then v0 else none
    let m04 := C04.onExchange ms.m04 p obs
    -- id_token must agree with the access token about the subject and name the client
    let v := match v, obs with
      | none, some tk => if has l "o.idsub" && (str l "o.idsub" != tk.subject || str l "o.azp" != tk.client) then some "tokens:id_token-mismatch" else none
      | x, _ => x
    let m07 := if str l "obs" == "ok" && has l "o.rt" then
        C07.onIssue ms.m07 { token := str l "o.rt", client := str l "o.rtclient", subject := str l "o.rtsub", scopes := list l "o.rtscopes",
                              audience := list l "o.rtaud", authTime := int l "o.rtauthtime" }
      else ms.m07
    ({ ms with m04 := m04, m07 := m07 }, v, none)
  | "refresh" =>
    if str l "obs" == "panic" then (ms, none, some "panic") else
    let p := presented l
    let obs : Option C07.Result := if str l "obs" == "ok" then
      some { newRT := str l "o.rt", scopes := list l "o.rtscopes", client := str l "o.rtclient", subject := str l "o.rtsub",
             audience := list l "o.rtaud", authTime := int l "o.rtauthtime",
             handedOver := (list l "journal").any (fun j => j.startsWith "CreateAccessAndRefreshTokens(refresh," && j.endsWith ("," ++ str l "rt" ++ ")")) } else none
    let created := journalHas l "CreateAccess"
    let v0 := C07.judge ms.m07 (int l "now0") p (str l "rt") (list l "scopes") obs (str l "o.err") created
    let v1 := C07.judge ms.m07 (int l "now1") p (str l "rt") (list l "scopes") obs (str l "o.err") created
    let v := if v0.isSome && v1.isSome then v0 else none
    ({ ms with m07 := C07.onRefresh ms.m07 (str l "rt") obs }, none, v)
  | _ => (ms, none, none)

def obsString (l : Line) : String :=
  match str l "obs" with
  | "ok" => "ok"
  | "err" => "err:" ++ str l "o.err"
  | x => x

def stepMon (prop : String) (ms : MonSt) (l : Line) : MonSt × String :=
  let (ms', v04, v07) := monStep ms l
  let v := if prop == "C07" then v07 else v04
  (ms', s!"case={str l "case"} class={str l "op"}:{obsString l} model=- observed={obsString l} monitor={showMon v} agree=1")

end Drv.Flow
