import Driver.Common
import OidcModel.Spec.FlowObs
import Driver.C07WireMon
import Driver.C07FaultMon
import Driver.C07AudMon
open Kv Drv

namespace Drv.Flow

def parseClient (l : Line) (p : String) : OPClient :=
  { id := str l (p ++ "id"), secret := str l (p ++ "secret"), app := nat l (p ++ "app"), auth := str l (p ++ "auth"),
    grants := list l (p ++ "grants"), redirectURIs := list l (p ++ "redirects"), devMode := bool l (p ++ "dev"),
    respTypes := list l (p ++ "resptypes"),
    globs := if has l (p ++ "globs") then some (list l (p ++ "globs")) else none,
    postLogoutURIs := list l (p ++ "postlogout"),
    postLogoutGlobs := if has l (p ++ "plglobs") then some (list l (p ++ "plglobs")) else none,
    keys := if has l (p ++ "k.no") then
      [{ KeyID := str l (p ++ "k.kid"), Use := "sig", kty := parseKty (str l (p ++ "k.kty")), keyNo := nat l (p ++ "k.no") }] else [] }

def parseClients (l : Line) : List OPClient :=
  (List.range (nat l "cl.n")).map fun i => parseClient l ("cl." ++ toString i ++ ".")

/-- observer state of the flow monitors (built from OBSERVED responses only): Spec/FlowObs.lean -/
abbrev MonSt := FlowObs.ObsState

def presented (l : Line) : C04.Presented :=
  { clientID := str l "cid", secret := str l "secret",
    assertion := if str l "auth" == "assertion" then some (parseToken l) else none,
    code := str l "code", redirectURI := str l "redirect", verifier := str l "verifier" }

def journalHas (l : Line) (pfx : String) : Bool := (list l "journal").any (fun j => j.startsWith pfx)

/-- the refresh-token record the storage created while serving the request (`pfx` = "o.rt": delivered with the
    response; "o.minted": the request failed after the storage had created it) -/
def mintedRT (l : Line) (tokKey : String) : C07.RT :=
  { token := str l tokKey, client := str l "o.rtclient", subject := str l "o.rtsub", scopes := list l "o.rtscopes",
    audience := list l "o.rtaud", authTime := int l "o.rtauthtime" }

/-- deep3-C04: the single tokens of a token response as the harness decoded them (`o.idt.*`: the ID token's payload; `o.at.*`: the
    access token - a JWT's claims, or the record an opaque token resolves to after decryption -; `o.rt*`: the record the storage
    holds under the refresh token string) -/
def carriedOfLine (l : Line) : List C04.Carried :=
  (if has l "o.idt.sub" then
    [{ kind := "id_token", subject := some (str l "o.idt.sub"), client := some (str l "o.idt.client"), nonce := some (str l "o.idt.nonce") }] else []) ++
  (if has l "o.at.kind" then
    [{ kind := "access_token", subject := some (str l "o.at.sub"), client := some (str l "o.at.client"),
       scopes := if has l "o.at.scopes" then some (list l "o.at.scopes") else none }] else []) ++
  (if has l "o.at.kind" && has l "o.rt" && has l "o.rtclient" then
    [{ kind := "refresh_token", subject := some (str l "o.rtsub"), client := some (str l "o.rtclient"), scopes := some (list l "o.rtscopes") }] else [])

/-- the event an observed line stands for (none: nothing the monitors look at) -/
def parseEvent (l : Line) : Option FlowObs.Event :=
  match str l "op" with
  | "authorize" =>
    if str l "obs" == "login" then
      let ch : Option CodeChallenge := if has l "chal.m" then some { Challenge := str l "chal.c", Method := str l "chal.m" } else none
      -- round 4c (C04): a request with a signed request object: the line says what travelled in the query and in the object; the challenge
      -- the request CARRIED is decided from that (C04.effectiveChallenge); the request was accepted, so was the object
      let ch := if has l "ro" then
          C04.effectiveChallenge true { challenge := str l "q.cc", method := str l "q.ccm" } { challenge := str l "ro.cc", method := str l "ro.ccm" }
        else ch
      some (.accepted { id := str l "o.id", clientID := str l "client", redirectURI := str l "redirect", scopes := list l "scopes",
                        nonce := str l "nonce", state := str l "state", challenge := ch,
                        subject := str l "o.presub" })
    else none
  | "login" => some (.login (str l "id") (str l "sub") (int l "authtime"))
  | "callback" => if str l "obs" == "code" then some (.code (str l "id") (str l "o.code")) else none
  | "exchange" =>
    let obs : Option C04.Tokens := if str l "obs" == "ok" then
      some { subject := str l "o.sub", client := str l "o.client", scopes := list l "o.scopes", nonce := str l "o.nonce",
             carried := carriedOfLine l } else none
    let minted : Option C07.RT :=
      if str l "obs" == "ok" && has l "o.rt" then some (mintedRT l "o.rt")
      else if str l "obs" != "ok" && has l "o.minted" then some (mintedRT l "o.minted") else none
    some (.exchange (presented l) obs minted)
  | "refresh" =>
    let obs : Option C07.Result := if str l "obs" == "ok" then
      some { newRT := str l "o.rt", scopes := list l "o.rtscopes", client := str l "o.rtclient", subject := str l "o.rtsub",
             audience := list l "o.rtaud", authTime := int l "o.rtauthtime",
             handedOver := (list l "journal").any (fun j => j.startsWith "CreateAccessAndRefreshTokens(refresh," && j.endsWith ("," ++ str l "rt" ++ ")")) } else none
    some (.refresh (presented l) (str l "rt") (list l "scopes") obs (str l "o.err") (journalHas l "CreateAccess"))
  | _ => none

/-- one observed line: returns new monitor state and verdicts (C04 clause, C07 clause).  The request was served at
    some instant between `now0` and `now1`: a clause counts only when it fails at both (the state update does not
    depend on the instant). -/
def monStep (ms : MonSt) (l : Line) : MonSt × Option String × Option String :=
  match str l "op" with
  | "reset" =>
    -- round 4b (C04): `sc` on the reset line = the provider's JWTProfileVerifier was built with op.SubjectCheck (configuration)
    let base : C04.MonState := { issuer := str l "issuer", clients := parseClients l, jwtMaxAgeIAT := 3600 * Go.second, jwtOffset := Go.second,
                                 subjectCheckCustom := has l "sc" }
    ({ m04 := base, m07 := { base := base, refreshEnabled := bool l "refresh" }, reqs := [] }, none, none)
  | op =>
    if (op == "exchange" || op == "refresh") && str l "obs" == "panic" then
      (ms, if op == "exchange" then some "panic" else none, if op == "refresh" then some "panic" else none)
    else if op == "reregister" then
      -- deep3-C07: a registration was replaced
      ((FlowObs.observeX 0 ms (.registered (parseClient l "cl.0."))).1, none, none)
    else if (op == "exchange" || op == "refresh") && has l "w.body" then
      -- deep3-C07: a token request described as it travelled (Spec/C07Wire.lean: judged under every reading)
      -- deep4-C07: a refresh line that describes the literal HTTP answer is also judged by Spec/C07Fault.lean (`observeF`)
      let e := Wire.refreshEvent l
      let (ms', a0, b0) := FlowObs.observeF (int l "now0") ms e
      let (_, a1, b1) := FlowObs.observeF (int l "now1") ms e
      let v04 := if a0.isSome && a1.isSome then a0 else none
      let v07 := if b0.isSome && b1.isSome then b0 else none
      -- deep5-C07: the audiences of the new tokens against the ORIGINAL grant (Spec/C07Aud.lean; lines with `o.auds` only)
      let v07 := Wire.audVerdict ms l v07
      let v04 := match v04 with
        | none =>
          if str l "obs" == "ok" && !has l "o.handed" && has l "o.idsub" && (str l "o.idsub" != str l "o.sub" || str l "o.azp" != str l "o.client")
          then some "tokens:id_token-mismatch" else none
        | x => x
      (ms', v04, v07)
    else
    match parseEvent l with
    | none => (ms, none, none)
    | some e =>
      let (ms', a0, b0) := FlowObs.observe (int l "now0") ms e
      let (_, a1, b1) := FlowObs.observe (int l "now1") ms e
      let v04 := if a0.isSome && a1.isSome then a0 else none
      let v07 := if b0.isSome && b1.isSome then b0 else none
      -- deep4-C04: an answer with tokens for a SPENT code (already a violation: "once") is also judged as if the code were unspent,
      -- so that the verdict names the binding clause it breaks as well (a request that had to be refused on its own account)
      let v04 := match v04, e with
        | some "code-replayed", .exchange p obs _ =>
          match C04.judgeBinding ms.m04 (int l "now0") p obs, C04.judgeBinding ms.m04 (int l "now1") p obs with
          | some c0, some _ => some ("code-replayed+" ++ c0)
          | _, _ => v04
        | x, _ => x
      -- id_token must agree with the access token about the subject and name the client
      let v04 := match v04, e with
        | none, .exchange _ (some tk) _ =>
          if has l "o.idsub" && (str l "o.idsub" != tk.subject || str l "o.azp" != tk.client) then some "tokens:id_token-mismatch" else none
        | x, _ => x
      (ms', v04, v07)

def obsString (l : Line) : String :=
  match str l "obs" with
  | "ok" => "ok"
  | "err" => "err:" ++ str l "o.err"
  | x => x

def stepMon (prop : String) (ms : MonSt) (l : Line) : MonSt × String :=
  let (ms', v04, v07) := monStep ms l
  let v := if prop == "C07" then v07 else v04
  (ms', s!"case={str l "case"} class={str l "op"}:{obsString l} model=- observed={obsString l} monitor={showMon v} agree=1")

end Drv.Flow
