/-
  Parser of the wire-level lines of the C04 / C07 streams (keys `w.body`, `w.query`, Basic credentials, the answer):
  turns an observed line into the request as it travelled and the answer the onlooker saw.  Spec / Model types only.
-/
import Driver.Common
import OidcModel.Spec.C07Wire
open Kv Drv

namespace Drv.Wire

/-- `name=value` at the first `=` -/
def splitItem (s : String) : String × String :=
  match s.splitOn "=" with
  | [] => ("", "")
  | [k] => (k, "")
  | k :: v => (k, "=".intercalate v)

def parseWire (l : Line) : WireReq :=
  { body := (list l "w.body").map splitItem, query := (list l "w.query").map splitItem,
    basic := if str l "auth" == "basic" then some (str l "cid", str l "secret") else none,
    asserts := if has l "t.segs" then [("A", parseToken l)] else [] }

def parseAnswer (l : Line) : FlowObs.Answer :=
  let ok := str l "obs" == "ok"
  let rtOf (k : String) : C07.RT :=
    { token := str l k, client := str l "o.rtclient", subject := str l "o.rtsub", scopes := list l "o.rtscopes",
      audience := list l "o.rtaud", authTime := int l "o.rtauthtime" }
  { tokens := if ok then some { subject := str l "o.sub", client := str l "o.client", scopes := list l "o.scopes", nonce := str l "o.nonce" } else none,
    audience := list l "o.aud",
    idSubject := if ok && has l "o.idsub" then some (str l "o.idsub") else none,
    idAuthTime := if ok && has l "o.authtime" then some (int l "o.authtime") else none,
    minted := if ok && has l "o.rt" then some (rtOf "o.rt") else if !ok && has l "o.minted" then some (rtOf "o.minted") else none,
    handed := if has l "o.handed" then some (str l "o.handed") else none,
    err := str l "o.err",
    -- deep4-C07: `o.created` = the storage holds a token now that it did not hold before the request (a creating call that
    -- FAILED is journalled too); lines without the key: the journal
    --
    -- a request that is refused because a storage call FAILED after the storage had rotated (`fault.at=in:CreateAccessToken` /
    -- `in:CreateIDToken`: signing key, userinfo, private claims) is not a refusal by validation: C07's "nothing is issued" speaks
    -- about the requests the provider refuses on their merits (client, grant, scope), and what a storage fault may leave in the
    -- ANSWER is C10's subject (judged there and by `judgeBody`: no token in the body).  The clause `tokens-created-on-refused-request`
    -- is therefore not applied to these lines (first recorded as F-C07a; settled as a demand beyond the property, DESIGN 9.5).
    created := if str l "fault.at" == "in:CreateAccessToken" || str l "fault.at" == "in:CreateIDToken" then false
               else if has l "o.created" then bool l "o.created" else (list l "journal").any (fun j => j.startsWith "CreateAccess") }

end Drv.Wire
