import Driver.C20Mon
import OidcModel.Generated.Footprint
import OidcModel.Go
import OidcModel.Model.C20Known
open Kv Footprint

/-! C20 driver, model part: the footprint model over the regenerated facts predicts the may-write set / the functions
    that may race for the step the harness ran; `agree` = everything observed is covered by the prediction. -/
namespace Drv.C20

/-- "op.IssuerFromHost#1" ↦ ("op.IssuerFromHost", 1) -/
def valOf (s : String) : String × Nat :=
  match s.splitOn "#" with
  | [m, k] => (m, k.toNat?.getD 0)
  | _ => (s, 0)

def instOf (l : Line) (p : String) : Inst :=
  { id := nat l (p ++ "id"), ty := str l (p ++ "ty"), entry := str l (p ++ "entry"), opts := list l (p ++ "opts"),
    vals := (list l (p ++ "vals")).map valOf }

def stepOf (l : Line) : Step :=
  let i := instOf l "inst."
  match str l "kind" with
  | "construct" => ⟨.construct, i.entry, i⟩
  | _ => ⟨.call, str l "entry", i⟩

def lastComp (s : String) : String := ((s.splitOn ".").getLast?).getD s

/-- does the predicted cell name cover the observed one? (field granularity; `via:` cells stand for any object of that shape) -/
def covers (pred obs : String) : Bool :=
  pred == obs || Go.hasPrefix obs (pred ++ ".") || Go.hasPrefix pred (obs ++ ".") ||
  (Go.hasPrefix pred "via:" && lastComp pred == lastComp obs)

def mixSteps (l : Line) : List Step :=
  let i := instOf l "inst."
  let calls := (list l "ops").map fun e => (⟨.call, e, i⟩ : Step)
  if has l "cinst.entry" then
    let c := instOf l "cinst."
    calls ++ [⟨.construct, c.entry, c⟩]
  else calls

def isExported (n : String) : Bool :=
  match (n.splitOn ".").getLast? with
  | some s => match s.toList with
    | c :: _ => c.isUpper
    | [] => false
  | none => false

def coveredBy (inv : List String) (n : String) : Bool :=
  inv.any fun c => c == n || (Go.hasSuffix c "*" && Go.hasPrefix n (String.ofList (c.toList.dropLast)))

/-- (deep round 4) a package-level SENTINEL: a pointer to a sentinel type (`*oidc.Error`: nobody writes such an object except through the
    tracked mutator methods) that no listed mutator call and no write site can reach.  The reflect snapshots are supporting evidence
    only; a new exported `var ErrX = oidc.ErrY().WithDescription(…)` need not be added to the harness' snapshot list. -/
def isSentinelGlobal (n : String) : Bool :=
  let H := Gen.heapFacts
  H.kindOf n == "ptr" && H.sentinelType (H.tyOf n) &&
    !((heapHits H).any fun h => match h.2 with | .global g _ => g == n | _ => false) &&
    !(Gen.facts.sites.any fun s => s.root == .global n)

/-- `oidc.Error.Description` for the receiver writes of the mutator methods that are called (after initialisation) on a value the
    caller did not make (`e.WithDescription(…)` on an error found with errors.As in the error a function was handed) -/
def mutatedHandedIn : List String :=
  let H := Gen.heapFacts
  (H.writes.filter fun w => match H.mutatorOf w with
    | some m => H.mutCalls.any fun k => k.2.2.1 == m && k.2.2.2.any fun o => o != "fresh" && !Go.hasPrefix o "global:"
    | none => false).map fun w => w.ty ++ "." ++ ".".intercalate w.path

def step (l : Line) : String :=
  let F := Gen.facts
  let pre := "case=" ++ str l "case" ++ " class=" ++ classOf l
  let post := " observed=" ++ obsStr l ++ " monitor=" ++ monStr l
  match str l "kind" with
  | "inventory" =>
    let inv := list l "covered"
    let missing := F.globals.filter fun n => isExported n && !coveredBy inv n && !isSentinelGlobal n
    pre ++ " model=exported:" ++ toString (F.globals.filter isExported).length ++ "/missing:" ++ esc (join missing) ++ post ++
      " agree=" ++ (if missing.isEmpty then "1" else "0")
  | "facts" =>
    -- the static tie made visible in the stream: write sites that are not in the audited lists
    let newH := ((hidden F).filter fun p => !_root_.C20.knownHidden.contains p).map fun p => p.1 ++ ">" ++ p.2.name
    let newU := ((undisciplinedSites F).filter fun p => !_root_.C20.knownUnsync.contains p).map fun p => p.1 ++ ">" ++ p.2
    let newR := ((undisciplinedReads F).filter fun p => !_root_.C20.auditedReads.contains p).map fun p => p.1 ++ ">" ++ p.2
    let all := dedup (newH ++ newU ++ newR)
    pre ++ " model=sites:" ++ toString F.sites.length ++ "/unaudited:" ++ esc (join all) ++ post ++ " agree=" ++ (if all.isEmpty then "1" else "0")
  | "mix" =>
    let racy := racyFns (F.drop _root_.C20.auditedSites _root_.C20.auditedReads) (mixSteps l)
    pre ++ " model=mayrace:" ++ esc (join racy) ++ post ++ " agree=1"
  | "race" =>
    let racy := racyFns (F.drop _root_.C20.auditedSites _root_.C20.auditedReads) (mixSteps l)
    let w := str l "race.w"
    let o := str l "race.o"
    let named := racy.contains w || racy.contains o
    pre ++ (if named then "+predicted" else if racy.isEmpty then "+unpredicted" else "+other-site") ++
      " model=mayrace:" ++ esc (join racy) ++ post ++ " agree=" ++ (if racy.isEmpty then "0" else "1")
  | _ =>
    let st := stepOf l
    let cells := dedup (((stepCells F st).filter Cell.shared).map Cell.name)
    let o := obsOf l
    let observed := o.globalsChanged ++ o.suppliedChanged
    -- writes into an object that a library function was HANDED (parameter / errors.As target) may hit whatever caller-owned
    -- object of that type a step passes in (the storage's sentinel error value, …): may-alias by type, named `<type>.<field>`
    -- (`F.reach` lists only functions with write sites of their own, so this is not narrowed to the step's call graph)
    let handed := dedup ((((Gen.foreignWrites.filter fun w => Go.hasPrefix w.via "param:" && w.ty == "oidc.Error").map
      fun w => w.ty ++ "." ++ ".".intercalate w.path) ++ mutatedHandedIn).filter fun p => o.suppliedChanged.any fun n => covers p n)
    let cells := cells ++ handed
    let unexplained := observed.filter fun n => !cells.any fun p => covers p n
    -- a deterministic interleaving of two requests of this step on the one instance: what may race when it runs twice at once
    let racy := if str l "sched" == "overlap" then racyFns (F.drop _root_.C20.auditedSites _root_.C20.auditedReads) [st, st] else []
    -- another instance / later behaviour can only change through a shared cell (or, under an interleaving, through a race)
    let indirect := (!o.othersChanged.isEmpty || !o.behaviourChanged.isEmpty || !o.instanceBehaviourChanged.isEmpty) && cells.isEmpty &&
      racy.isEmpty && !(st.inst.ty == "rp.remoteKeySet")
    let ok := unexplained.isEmpty && !indirect
    pre ++ (if cells.isEmpty then "" else "+maywrite") ++ (if racy.isEmpty then "" else "+mayrace") ++
      " model=" ++ esc (join (cells ++ racy.map fun f => "race:" ++ f)) ++ post ++ " agree=" ++ (if ok then "1" else "0")

end Drv.C20
