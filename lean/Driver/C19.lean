import Driver.C19Mon
import OidcModel.Model.DiscoveryModel
open Kv Drv

namespace Drv.C19
open _root_.C19 Disco

def parseInput (l : Line) : Input :=
  let c := parseConfig l
  { cfg := c, providerEndpoints := parseEndpoints l "pe.",
    issuer := (requestIssuer (parseOracleP l "is.arg" "ip.") (parseStrategy l "is.kind" "is.arg") c.insecure (str l "host") (opt l "fwd")).getD "model:provider-not-constructible" }

/-! #### kind=visit -/

/-- the forwarding headers of the request, `h<i>.name` ↦ `h<i>.vals` (configured names that are absent come with an empty list) -/
def parseReq (l : Line) : DiscReq :=
  { Host := str l "host",
    headers := (List.range (nat l "hn")).map fun i => (str l s!"h{i}.name", list l s!"h{i}.vals") }

/-- `httpforwarded.ParseParameter("host", values)` as an oracle: the library's answer for exactly the value lists of this request -/
def fwdOracleOf (l : Line) : String → List String → Go.R (List String) := fun param vals =>
  if param != "host" then .error "not-queried" else
  match (List.range (nat l "hn")).find? (fun i => list l s!"h{i}.vals" == vals) with
  | some i => if bool l s!"h{i}.perr" then .error "parse" else .ok (list l s!"h{i}.hosts")
  | none => .error "not-queried"

def customHeaders (l : Line) : Option (List String) := if has l "is.hdrs" then some (list l "is.hdrs") else none

/-- the model's visit: the regenerated strategy constructs the issuer function, the regenerated interceptor and discovery route
    serve the request; agreement = same status, same document (every member the property reads), same token issuers -/
def visitModel (l : Line) : Option VisitObs :=
  let i : Input := { cfg := parseConfig l, providerEndpoints := parseEndpoints l "pe." }
  let o : ServeOracles := { urlParse := parseOracleP l "is.arg" "ip.", parseFwd := fwdOracleOf l }
  match issuerFn o (parseStrategy l "is.kind" "is.arg") (customHeaders l) i.cfg.insecure with
  | .error _ => none
  | .ok f => some (modelVisit i f (parseReq l) ((parseVisitObs l).tokenIssuers.map (·.1)))

def agreeVisit (l : Line) : Bool :=
  match visitModel l with
  | none => false
  | some m =>
    let o := parseVisitObs l
    o.status == m.status && o.doc == m.doc && o.tokenIssuers == m.tokenIssuers

def isUnsupported (code : String) : Bool := code == unsupportedGrantType

/-- does the observation agree with the model's prediction (on everything the property reads)? -/
def agreeConfig (l : Line) : Bool :=
  let i := parseInput l
  let m := modelObs i
  let o := parseObs l
  o.status == m.status && o.doc == m.doc &&
  o.probe.all (fun (f, st) => match m.probe.find? (·.1 == f) with | some (_, ms) => served st == served ms | none => false) &&
  (match o.grantAnswer, m.grantAnswer with
   | some oa, some ma => oa.length == ma.length && oa.all (fun (g, code) =>
       match ma.find? (·.1 == g) with
       | some (_, mc) => isUnsupported code == isUnsupported mc && (mc != "invalid_request" || code == "invalid_request")
       | none => false)
   | none, none => true
   | _, _ => false) &&
  (match o.tokenIssuer with | some x => some x == m.tokenIssuer | none => true) &&
  o.pkce == m.pkce &&
  (o.requestObject == m.requestObject || o.requestObject == "na")

def showRes (r : Go.R Unit) : String := match r with | .ok _ => "ok" | .error e => "err:" ++ e

def modelLine (l : Line) : String × Bool :=
  match str l "kind" with
  | "config" => (docSummary (modelObs (parseInput l)).doc, str l "obs" != "panic" && agreeConfig l)
  | "visit" =>
    let ms := match visitModel l with
      | some m => s!"iss={esc m.doc.Issuer};{docSummary m.doc}"
      | none => "provider-not-constructible"
    (ms, str l "obs" != "panic" && agreeVisit l)
  | "issuer" =>
    let m := constructIssuer (parseOracle l "s") (.static (str l "s")) (bool l "insecure")
    (showRes m, showRes m == observedOf l)
  | "dynissuer" =>
    let s := parseStrategy l "strategy" "path"
    let m := constructIssuer (parseOracle l "path") s (bool l "insecure")
    let issOK := match m, opt l "o.iss" with
      | .ok _, some x => some x == requestIssuer (parseOracle l "path") s (bool l "insecure") (str l "host") (opt l "fwd")
      | .ok _, none => false
      | .error _, some _ => false
      | .error _, none => true
    (showRes m, showRes m == observedOf l && issOK)
  | "discover" =>
    let status := nat l "status"
    let served : DiscoveryConfiguration := { Issuer := str l "served" }
    let wk := if has l "wk" then [str l "wk"] else []
    let m := Gen.Discover 0 (fun _ u _ => .ok u) (fun _ _ _ => if status == 200 then .ok served else .error "http") (str l "asked") () wk
    let ms := match m with | .ok _ => "ok" | .error e => "err:" ++ e
    (ms, ms == observedOf l && (match m with | .ok d => d.Issuer == str l "o.iss" | .error _ => true))
  | _ => ("?", false)

def step (l : Line) : String :=
  let (m, agree) := modelLine l
  s!"case={str l "case"} class={classOf l} model={m} observed={observedOf l} monitor={showMon (monitorLine l)} agree={if agree then 1 else 0}"

end Drv.C19
