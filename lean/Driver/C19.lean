import Driver.C19Mon
import OidcModel.Model.DiscoveryModel
import OidcModel.Model.ProviderC19Model
import OidcModel.Model.HonourC19Model
open Kv Drv

namespace Drv.C19
open _root_.C19 Disco

def parseInput (l : Line) : Input :=
  let c := parseConfig l
  { cfg := c, providerEndpoints := parseEndpoints l "pe.",
    issuer := (requestIssuer (parseOracleP l "is.arg" "ip.") (parseStrategy l "is.kind" "is.arg") c.insecure (str l "host") (opt l "fwd")).getD "model:provider-not-constructible" }

/-! #### kind=visit -/

/-- the forwarding headers of the request, `h<i>.name` ↦ `h<i>.vals` (configured names that are absent come with an empty list) -/
def parseReq (l : Line) : DiscReq :=
  { Host := str l "host",
    headers := (List.range (nat l "hn")).map fun i => (str l s!"h{i}.name", list l s!"h{i}.vals") }

/-- `httpforwarded.ParseParameter("host", values)` as an oracle: the library's answer for exactly the value lists of this request -/
def fwdOracleOf (l : Line) : String → List String → Go.R (List String) := fun param vals =>
  if param != "host" then .error "not-queried" else
  match (List.range (nat l "hn")).find? (fun i => list l s!"h{i}.vals" == vals) with
  | some i => if bool l s!"h{i}.perr" then .error "parse" else .ok (list l s!"h{i}.hosts")
  | none => .error "not-queried"

def customHeaders (l : Line) : Option (List String) := if has l "is.hdrs" then some (list l "is.hdrs") else none

/-- the model's visit: the regenerated strategy constructs the issuer function, the regenerated interceptor and discovery route
    serve the request; agreement = same status, same document (every member the property reads), same token issuers -/
def visitModel (l : Line) : Option VisitObs :=
  let i : Input := { cfg := parseConfig l, providerEndpoints := parseEndpoints l "pe." }
  let o : ServeOracles := { urlParse := parseOracleP l "is.arg" "ip.", parseFwd := fwdOracleOf l }
  match issuerFn o (parseStrategy l "is.kind" "is.arg") (customHeaders l) i.cfg.insecure with
  | .error _ => none
  | .ok f => some (modelVisit i f (parseReq l) ((parseVisitObs l).tokenIssuers.map (·.1)))

def agreeVisit (l : Line) : Bool :=
  match visitModel l with
  | none => false
  | some m =>
    let o := parseVisitObs l
    o.status == m.status && o.doc == m.doc && o.tokenIssuers == m.tokenIssuers

def isUnsupported (code : String) : Bool := code == unsupportedGrantType

/-- does the observation agree with the model's prediction (on everything the property reads)? -/
def agreeConfig (l : Line) : Bool :=
  let i := parseInput l
  let m := modelObs i
  let o := parseObs l
  o.status == m.status && o.doc == m.doc &&
  o.probe.all (fun (f, st) => match m.probe.find? (·.1 == f) with | some (_, ms) => served st == served ms | none => false) &&
  (match o.grantAnswer, m.grantAnswer with
   | some oa, some ma => oa.length == ma.length && oa.all (fun (g, code) =>
       match ma.find? (·.1 == g) with
       | some (_, mc) => isUnsupported code == isUnsupported mc && (mc != "invalid_request" || code == "invalid_request")
       | none => false)
   | none, none => true
   | _, _ => false) &&
  (match o.tokenIssuer with | some x => some x == m.tokenIssuer | none => true) &&
  o.pkce == m.pkce &&
  (o.requestObject == m.requestObject || o.requestObject == "na")

/-! #### kind=options: the REGENERATED `NewProvider` on the same option list -/

def natList (l : Line) (k : String) : List Nat := (list l k).map String.toNat!

def parseOpts (l : Line) : List Opt :=
  (List.range (nat l "on")).map fun i =>
    let p := s!"o{i}."
    let e := fun (j : Nat) => parseEndpoint l s!"{p}e{j}"
    match str l (p ++ "k") with
    | "insecure" => .allowInsecure
    | "auth" => .authEndpoint (e 0) | "token" => .tokenEndpoint (e 0) | "introspection" => .introspectionEndpoint (e 0)
    | "userinfo" => .userinfoEndpoint (e 0) | "revocation" => .revocationEndpoint (e 0) | "endsession" => .endSessionEndpoint (e 0)
    | "keys" => .keysEndpoint (e 0) | "device" => .deviceAuthorizationEndpoint (e 0)
    | "eps" => .endpoints (e 0) (e 1) (e 2) (e 3) (e 4) (e 5)
    | "interceptors" => .httpInterceptors (natList l (p ++ "l"))
    | "atks" => .accessTokenKeySet (.custom (nat l (p ++ "id"))) | "hintks" => .idTokenHintKeySet (.custom (nat l (p ++ "id")))
    | "atopts" => .accessTokenVerifierOpts (natList l (p ++ "l")) | "hintopts" => .idTokenHintVerifierOpts (natList l (p ++ "l"))
    | "cors" => .corsOptions (if nat l (p ++ "id") == 0 then .nil else .custom (nat l (p ++ "id")))
    | _ => .logger (.custom (nat l (p ++ "id")))

def showKS : C19KeySet → String
  | .nil => "nil" | .openID _ => "storage" | .custom n => s!"c{n}"

/-- the model's provider for the line: through the regenerated constructor the harness used -/
def optionsModel (l : Line) : Go.R C19Provider :=
  let parse := parseOracleP l "is.arg" "ip."
  let opts := (parseOpts l).map Opt.toOption
  if str l "ctor" == "NewOpenIDProvider" then GenOp.NewOpenIDProvider 0 parse (str l "is.arg") {} {} opts
  else GenOp.NewProvider 0 {} {} (GenServe.StaticIssuer 0 parse (str l "is.arg")) opts

def optionsInput (l : Line) (p : C19Provider) : Input :=
  match optionsLegacy l with
  | some eps => legacyInputOf (GenOp.NewLegacyServer 0 p eps) (str l "is.arg")
  | none => inputOf p (str l "is.arg")

def agreeOptions (l : Line) : String × Bool :=
  match optionsModel l with
  | .error e => ("err:" ++ e, !(bool l "acc") && str l "o.err" == e)
  | .ok p =>
    let i := optionsInput l p
    let m := modelObs i
    let o := parseObs l
    let ctx := GenServe.ContextWithIssuer 0 {} (str l "is.arg")
    let atv := GenOp.Provider_AccessTokenVerifier 0 p ctx
    let hint := GenOp.Provider_IDTokenHintVerifier 0 p ctx
    let trace := if (optionsLegacy l).isSome then [] else p.interceptors
    (docSummary m.doc,
     bool l "acc" && o.status == m.status && o.doc == m.doc &&
     o.probe.all (fun (f, st) => match m.probe.find? (·.1 == f) with | some (_, ms) => served st == served ms | none => false) &&
     (bool l "x.insecure") == Gen.Provider_Insecure 0 p.toOpProvider &&
     str l "x.atks" == showKS atv.keySet && str l "x.hintks" == showKS hint.keySet &&
     natList l "x.atopts" == atv.opts && natList l "x.hintopts" == hint.opts &&
     str l "x.atiss" == atv.issuer && str l "x.hintiss" == hint.issuer &&
     natList l "x.trace" == trace)

/-! #### kind=honour: the regenerated request-object functions and the regenerated PKCE check on the same flow -/

def honModelOf (l : Line) : HonObs :=
  honModel (bool l "f.reqobj") (str l "d.issuer") "probe" (parseHonRequest l) (str l "v") (str l "w")

/-- agreement: same answer of the authorization endpoint (a refused request object: any refusal), the same request handed to the storage,
    the same accept / refuse per presented verifier -/
def agreeHonour (l : Line) : Bool :=
  let m := honModelOf l
  let o := parseHonObs l
  if m.authorize != "login" then o.authorize != "login"
  else o.authorize == "login" && o.stored == m.stored &&
    o.token.length == m.token.length &&
    (o.token.zip m.token).all (fun (a, b) => a.1 == b.1 && ((a.2 == 200) == (b.2 == 200)))

def showRes (r : Go.R Unit) : String := match r with | .ok _ => "ok" | .error e => "err:" ++ e

def modelLine (l : Line) : String × Bool :=
  match str l "kind" with
  | "config" => (docSummary (modelObs (parseInput l)).doc, str l "obs" != "panic" && agreeConfig l)
  | "options" =>
    let (ms, ok) := agreeOptions l
    (ms, str l "obs" != "panic" && ok)
  | "visit" =>
    let ms := match visitModel l with
      | some m => s!"iss={esc m.doc.Issuer};{docSummary m.doc}"
      | none => "provider-not-constructible"
    (ms, str l "obs" != "panic" && agreeVisit l)
  | "honour" =>
    let m := honModelOf l
    (s!"az={esc m.authorize};tok={String.intercalate "/" (m.token.map fun t => toString t.2)}", str l "obs" != "panic" && agreeHonour l)
  | "issuer" =>
    let m := constructIssuer (parseOracle l "s") (.static (str l "s")) (bool l "insecure")
    (showRes m, showRes m == observedOf l)
  | "dynissuer" =>
    let s := parseStrategy l "strategy" "path"
    let m := constructIssuer (parseOracle l "path") s (bool l "insecure")
    let issOK := match m, opt l "o.iss" with
      | .ok _, some x => some x == requestIssuer (parseOracle l "path") s (bool l "insecure") (str l "host") (opt l "fwd")
      | .ok _, none => false
      | .error _, some _ => false
      | .error _, none => true
    (showRes m, showRes m == observedOf l && issOK)
  | "discover" =>
    let status := nat l "status"
    let served : DiscoveryConfiguration := { Issuer := str l "served" }
    let wk := if has l "wk" then [str l "wk"] else []
    let m := Gen.Discover 0 (fun _ u _ => .ok u) (fun _ _ _ => if status == 200 then .ok served else .error "http") (str l "asked") () wk
    let ms := match m with | .ok _ => "ok" | .error e => "err:" ++ e
    (ms, ms == observedOf l && (match m with | .ok d => d.Issuer == str l "o.iss" | .error _ => true))
  | _ => ("?", false)

def step (l : Line) : String :=
  let (m, agree) := modelLine l
  s!"case={str l "case"} class={classOf l} model={m} observed={observedOf l} monitor={showMon (monitorLine l)} agree={if agree then 1 else 0}"

end Drv.C19
