import Driver.Common
import OidcModel.Spec.C18
open Kv Drv

/-
  C18 line (one end_session request; self-contained):
    router=provider|legacy  termfromreq=0|1  termfail=0|1 (the storage refuses to terminate)  issuer=<issuer of THIS request>  default=<default logout URI>
    cl.n / cl.<i>.{id,postlogout,globs,plglobs}          registrations (globs/plglobs present = opted in)
    ks.*                                                  the OP's own published key set (storage)
    opt.n / opt.<i>.k = at|hint / opt.<i>.ks.*            the key-set options NewProvider got, in order: WithAccessTokenKeySet / WithIDTokenHintKeySet
    hint=0|1 [+ t.* c.* j.* s<i>.* : the hint as the parsers see it]   cid= plu= state=   formerr=0|1
    pm.n / pm.<i>.{g,r}      path.Match(g, plu) for every glob of every client: r = 1 | 0 | err
    up.n / up.<i>.{s,ok,base,rawq,fq,frag,unread,qn,q.<j>.k,q.<j>.v}            url.Parse of the default URI and of plu
    obs=redirect|err|panic  o.loc  o.status  o.err   od.*  (Location as net/url decodes it)   term.n term.<i>.{u,c}
-/
namespace Drv.C18

def parseClient (l : Line) (p : String) : OPClient :=
  { id := str l (p ++ "id"), postLogoutURIs := list l (p ++ "postlogout"), redirectURIs := list l (p ++ "redirects"),
    globs := if has l (p ++ "globs") then some (list l (p ++ "globs")) else none,
    postLogoutGlobs := if has l (p ++ "plglobs") then some (list l (p ++ "plglobs")) else none }

def parseClients (l : Line) : List OPClient :=
  (List.range (nat l "cl.n")).map fun i => parseClient l ("cl." ++ toString i ++ ".")

def parseURL (l : Line) (p : String) : Go.R SessURL :=
  if bool l (p ++ "ok") then
    .ok { base := str l (p ++ "base"), frag := str l (p ++ "frag"), rawQuery := str l (p ++ "rawq"), forceQuery := bool l (p ++ "fq"),
          unread := list l (p ++ "unread"),
          query := (List.range (nat l (p ++ "qn"))).map fun j =>
            (str l (p ++ "q." ++ toString j ++ ".k"), list l (p ++ "q." ++ toString j ++ ".v")) }
  else .error "parse"

def pathMatchOf (l : Line) : String → String → Go.R Bool :=
  let tbl := (List.range (nat l "pm.n")).map fun i => (str l ("pm." ++ toString i ++ ".g"), str l ("pm." ++ toString i ++ ".r"))
  let plu := str l "plu"
  fun g u =>
    if u != plu then .error "oracle-miss" else
    match tbl.find? (·.1 == g) with
    | some (_, r) => if r == "1" then .ok true else if r == "0" then .ok false else .error "syntax error in pattern"
    | none => .error "oracle-miss"

def urlParseOf (l : Line) : String → Go.R SessURL :=
  let tbl := (List.range (nat l "up.n")).map fun i => (str l ("up." ++ toString i ++ ".s"), parseURL l ("up." ++ toString i ++ "."))
  fun s => match tbl.find? (·.1 == s) with
    | some (_, r) => r
    | none => .error "oracle-miss"

/-- the key-set options the provider was constructed with, in order -/
def parseOpts (l : Line) : List (String × KeySet) :=
  (List.range (nat l "opt.n")).map fun i => (str l ("opt." ++ toString i ++ ".k"), parseKeySet l ("opt." ++ toString i ++ ".ks."))

/-- the key set the deployment configured with the option `k` (a later option replaces an earlier one) -/
def lastOpt (l : Line) (k : String) : Option KeySet := (((parseOpts l).filter (·.1 == k)).map (·.2)).getLast?

def cfgOf (l : Line) : C18.Cfg :=
  { issuer := str l "issuer", keys := parseKeySet l "ks.", hintKeys := lastOpt l "hint", accessTokenKeys := lastOpt l "at",
    algs := [], clients := parseClients l, defaultURI := str l "default" }

def reqOf (l : Line) : C18.Req :=
  { hint := if bool l "hint" then some (parseToken l) else none, clientID := str l "cid", plu := str l "plu", state := str l "state",
    malformed := bool l "formerr", termRefused := bool l "termfail", lookupRefused := bool l "lookupfail" }

def orcOf (l : Line) : C18.Orc := { pathMatch := pathMatchOf l, urlParse := urlParseOf l }

def termOf (l : Line) : List (String × String) :=
  (List.range (nat l "term.n")).map fun i => (str l ("term." ++ toString i ++ ".u"), str l ("term." ++ toString i ++ ".c"))

def obsOf (l : Line) : C18.Obs :=
  match str l "obs" with
  | "redirect" => .redirect (str l "o.loc") (parseURL l "od.") (termOf l)
  | "panic" => .panic
  | _ => .rejected (termOf l)

def showTerm (t : List (String × String)) : String :=
  String.join (t.map fun uc => "(" ++ esc uc.1 ++ "," ++ esc uc.2 ++ ")")

def obsString (l : Line) : String :=
  match str l "obs" with
  | "redirect" => "redirect:" ++ esc (str l "o.loc") ++ "|term:" ++ showTerm (termOf l)
  | "panic" => "panic"
  | _ => "err:" ++ str l "o.status" ++ ":" ++ str l "o.err" ++ (if (termOf l).isEmpty then "" else "|term:" ++ showTerm (termOf l))

def obsClass (l : Line) : String :=
  match str l "obs" with
  | "redirect" => "redirect"
  | "panic" => "panic"
  | _ => "err:" ++ str l "o.err"

def monitorLine (l : Line) : Option String := C18.monitor (cfgOf l) (orcOf l) (reqOf l) (obsOf l)

def stepMon (l : Line) : String :=
  s!"case={str l "case"} class={str l "kind"}:{obsClass l} model=- observed={obsString l} monitor={showMon (monitorLine l)} agree=1"

end Drv.C18
