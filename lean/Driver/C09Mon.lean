import Driver.Common
import Driver.C12Mon
import OidcModel.Spec.C09
open Kv Drv Codec

/-! C09 driver, monitor part (imports Spec / Model only): the property judged on what the harness OBSERVED. -/
namespace Drv.C09

def clsOfObs (s : String) : _root_.C09.Cls :=
  match s with
  | "panic" => .panic
  | "nilnil" => .nilnil
  | "err" => .err
  | _ => .ok

def monitorLine (l : Line) : Option String :=
  match str l "kind" with
  | "handler" =>
    _root_.C09.handlerOK { panic := bool l "panic", commits := nat l "commits", logicAfterErr := nat l "afterErr" }
  | "dec" | "claims" | "verify" | "client" | "hint" | "bytes" | "rph" => _root_.C09.outcomeOK (clsOfObs (str l "obs"))
  | _ => some "bad-kind"

def statusClass (n : Nat) : String := toString (n / 100) ++ "xx"
def lastSeg (s : String) : String := if s == "" then "accepted" else ((s.splitOn ".").getLast?).getD s

def classOf (l : Line) : String :=
  match str l "kind" with
  | "handler" =>
    let ent := if str l "entry" == "" then "unrouted" else str l "entry"
    let tok := if has l "tplace" then ":" ++ esc (str l "tplace") ++ ":" ++ esc (lastSeg (str l "tcheck"))
      else if has l "lplace" then ":" ++ esc (str l "lplace") ++ ":" ++ esc (str l "lcls")
      else if has l "hplace" then ":" ++ esc (str l "hplace") ++ ":" ++ esc (str l "htype") else ""
    "handler:" ++ str l "router" ++ ":" ++ esc ent ++ ":" ++ esc (((str l "mut").splitOn ":").headD "") ++ tok ++ ":" ++ statusClass (nat l "status")
  | "dec" => "dec:" ++ str l "type" ++ ":" ++ str l "mode" ++ ":" ++ str l "ptype" ++ ":" ++ str l "obs"
  | "claims" => "claims:" ++ esc (str l "type") ++ ":" ++ str l "ptype" ++ ":" ++ str l "obs"
  | "verify" => "verify:" ++ esc (str l "fn") ++ ":p" ++ toString (nat l "parts") ++ ":" ++ str l "ptype" ++
      (if has l "hname" then ":hdr-" ++ esc (str l "htype") ++ "-" ++ esc (str l "hser") else "") ++ ":" ++ str l "obs"
  | "hint" => "hint:" ++ esc (str l "caller") ++ ":" ++ esc (lastSeg (str l "tcheck")) ++ ":" ++ str l "obs"
  | "bytes" => "bytes:" ++ esc (str l "via") ++ ":" ++ esc (str l "cls") ++ ":" ++ str l "obs"
  | "rph" => "rph:" ++ esc (str l "handler") ++ ":" ++ esc (str l "rp") ++ ":" ++ esc (str l "req") ++ ":" ++ esc (str l "token") ++ ":" ++ esc (str l "userinfo") ++
      (if has l "jwks" then ":" ++ esc (str l "jwks") else "") ++ (if has l "device" then ":" ++ esc (str l "device") else "") ++ ":" ++ str l "obs"
  | "client" => "client:" ++ esc (str l "helper") ++ ":" ++ statusClass (nat l "status") ++ ":" ++ str l "ptype" ++
      (if has l "bcls" then ":" ++ esc (str l "bcls") ++ (if str l "fault" == "none" then "" else "+" ++ esc (str l "fault")) else "") ++ ":" ++ str l "obs"
  | k => "other:" ++ esc k

def obsOf (l : Line) : String :=
  match str l "kind" with
  | "handler" => if bool l "panic" then "panic" else "commits" ++ toString (nat l "commits") ++ "/after" ++ toString (nat l "afterErr")
  | _ => str l "obs"

def stepMon (l : Line) : String :=
  s!"case={str l "case"} class={classOf l} model=- observed={obsOf l} monitor={showMon (monitorLine l)} agree=1"

end Drv.C09
