/-
  deep4-C07: parser of the keys that describe the literal HTTP answer of a refresh (`o.http`, `o.b.at`, `o.b.rt`, `o.b.idt`) and
  the rotation the storage performed while it served the request (`o.rot.new`).  Spec types only.
-/
import Driver.C07WireMon
import OidcModel.Spec.C07Fault
open Kv Drv

namespace Drv.Wire

def parseBody (l : Line) : FlowObs.Body :=
  { ok200 := int l "o.http" == 200, accessToken := bool l "o.b.at", refreshToken := str l "o.b.rt", idToken := bool l "o.b.idt",
    rotatedTo := if has l "o.rot.new" then some (str l "o.rot.new") else none }

/-- the event a refresh line stands for: with the literal answer when the line describes it -/
def refreshEvent (l : Line) : FlowObs.EventF :=
  if str l "op" == "refresh" && has l "o.http" then .refresh (parseWire l) (parseAnswer l) (parseBody l)
  else .x (.token (parseWire l) (parseAnswer l))

end Drv.Wire
