import Driver.Common
import OidcModel.Spec.C19
import OidcModel.Spec.C19Options
import OidcModel.Spec.C19Honour
open Kv Drv

/-
  C19 monitor driver (imports Spec/Model only).  Line kinds:
    kind=config     one provider configuration + what was observed from outside
    kind=issuer     provider construction with a static issuer string (url.Parse answer = oracle)
    kind=dynissuer  provider construction with issuer-from-host / Forwarded, and the issuer produced for one request
    kind=discover   client.Discover against a served document
    kind=visit      one discovery request of a SEQUENCE of requests from several hosts to one provider (`prov`, `step`), followed by
                    token issuance through the same host: the document served and the `iss` of the tokens
    kind=honour     one authorization-code flow (authorize -> login -> callback -> token) whose parameters travel in the query and / or inside a
                    signed request object, against what the same provider advertises (Spec/C19Honour.lean)
-/
namespace Drv.C19
open _root_.C19 Disco

def endpointNames : List String :=
  ["Authorization", "Token", "Introspection", "Userinfo", "Revocation", "EndSession", "CheckSessionIframe", "JwksURI", "DeviceAuthorization"]

def parseEndpoint (l : Line) (p : String) : Endpoint :=
  if bool l (p ++ ".nil") || !(has l (p ++ ".path")) then .nilPtr else { path := str l (p ++ ".path"), url := str l (p ++ ".url") }

def parseEndpoints (l : Line) (p : String) : Endpoints :=
  { Authorization := parseEndpoint l (p ++ "Authorization"), Token := parseEndpoint l (p ++ "Token"),
    Introspection := parseEndpoint l (p ++ "Introspection"), Userinfo := parseEndpoint l (p ++ "Userinfo"),
    Revocation := parseEndpoint l (p ++ "Revocation"), EndSession := parseEndpoint l (p ++ "EndSession"),
    CheckSessionIframe := parseEndpoint l (p ++ "CheckSessionIframe"), JwksURI := parseEndpoint l (p ++ "JwksURI"),
    DeviceAuthorization := parseEndpoint l (p ++ "DeviceAuthorization") }

def parseRouter (l : Line) : Router := if str l "router" == "legacy" then .legacy else .provider

/-- the configuration as the monitor reads it: the effective endpoint set is the Provider's own on the first router and the
    one handed to NewLegacyServer on the second -/
def parseConfig (l : Line) : Config :=
  let r := parseRouter l
  { router := r,
    endpoints := match r with | .provider => parseEndpoints l "pe." | .legacy => parseEndpoints l "le.",
    flags := { CodeMethodS256 := bool l "f.s256", AuthMethodPost := bool l "f.post", AuthMethodPrivateKeyJWT := bool l "f.pkjwt",
               GrantTypeRefreshToken := bool l "f.refresh", RequestObjectSupported := bool l "f.reqobj" },
    caps := { is_ClientCredentialsStorage := bool l "cap.cc", is_TokenExchangeStorage := bool l "cap.te", is_DeviceAuthorizationStorage := bool l "cap.dev" },
    insecure := bool l "insecure" }

def parseDoc (l : Line) : DiscoveryConfiguration :=
  { Issuer := str l "d.issuer", AuthorizationEndpoint := str l "d.authorization_endpoint", TokenEndpoint := str l "d.token_endpoint",
    IntrospectionEndpoint := str l "d.introspection_endpoint", UserinfoEndpoint := str l "d.userinfo_endpoint",
    RevocationEndpoint := str l "d.revocation_endpoint", EndSessionEndpoint := str l "d.end_session_endpoint", JwksURI := str l "d.jwks_uri",
    DeviceAuthorizationEndpoint := str l "d.device_authorization_endpoint", CheckSessionIframe := str l "d.check_session_iframe",
    GrantTypesSupported := list l "d.grants", TokenEndpointAuthMethodsSupported := list l "d.authmethods",
    CodeChallengeMethodsSupported := list l "d.pkce", RequestParameterSupported := bool l "d.reqobj" }

def parseObs (l : Line) : Obs :=
  { status := nat l "d.status", doc := parseDoc l,
    probe := Field.all.filterMap (fun f => if has l ("p." ++ f.name) then some (f, nat l ("p." ++ f.name)) else none),
    grantAnswer := if has l "ga.k" then some ((list l "ga.k").zip (list l "ga.v")) else none,
    tokenIssuer := opt l "tok.iss",
    pkce := (list l "pk.k").zip (list l "pk.v"),
    requestObject := str l "ro" }

/-- url.Parse oracle: the one string the implementation parsed, with what the real parser said -/
def parseOracle (l : Line) (key : String) : String → Go.R DiscURL := fun s =>
  if s != str l key then .error "not-queried"
  else if bool l "p.err" then .error "parse"
  else .ok { Scheme := str l "p.scheme", Host := str l "p.host", Fragment := str l "p.frag", query := List.replicate (nat l "p.nq") "k" }

/-- url.Parse oracle under a key prefix: the issuer argument of a provider (`is.arg`) with what the real parser said about it -/
def parseOracleP (l : Line) (key pre : String) : String → Go.R DiscURL := fun s =>
  if s != str l key then .error "not-queried"
  else if bool l (pre ++ "err") then .error "parse"
  else .ok { Scheme := str l (pre ++ "scheme"), Host := str l (pre ++ "host"), Fragment := str l (pre ++ "frag"), query := List.replicate (nat l (pre ++ "nq")) "k" }

def parseStrategy (l : Line) (kindKey argKey : String) : IssuerStrategy :=
  match str l kindKey with
  | "host" => .fromHost (str l argKey)
  | "forwarded" => .fromForwarded (str l argKey)
  | _ => .static (str l argKey)

/-- a visit as its sender knows it: strategy of the provider, Host line, the host its forwarding headers name (ground truth of the generator) -/
def parseVisit (l : Line) : Visit :=
  { strategy := parseStrategy l "is.kind" "is.arg", host := str l "host", fwdHost := opt l "fwd" }

/-! #### kind=options -/

def optField : String → Option Field
  | "auth" => some .authorization | "token" => some .token | "introspection" => some .introspection | "userinfo" => some .userinfo
  | "revocation" => some .revocation | "endsession" => some .endSession | "keys" => some .jwks | "device" => some .deviceAuthorization
  | _ => none

/-- the option list as the property reads it -/
def parseOptionSpecs (l : Line) : List OptionSpec :=
  (List.range (nat l "on")).map fun i =>
    let p := s!"o{i}."
    let e := fun (j : Nat) => parseEndpoint l s!"{p}e{j}"
    match str l (p ++ "k") with
    | "insecure" => .allowInsecure
    | "eps" => .endpoints (e 0) (e 1) (e 2) (e 3) (e 4) (e 5)
    | k => match optField k with | some f => .endpoint f (e 0) | none => .other

def optionsLegacy (l : Line) : Option Endpoints := if str l "router" == "legacy" then some (parseEndpoints l "le.") else none

def tokenKinds : List String := ["id", "at", "cc"]

def parseVisitObs (l : Line) : VisitObs :=
  { status := nat l "d.status", doc := parseDoc l,
    tokenIssuers := tokenKinds.filterMap fun k => (opt l ("tok." ++ k)).map fun iss => (k, iss) }

/-! #### kind=honour -/

def parseHonParams (l : Line) (p : String) : HonParams :=
  { scopes := list l (p ++ "scope"), redirectURI := str l (p ++ "redirect_uri"), state := str l (p ++ "state"), nonce := str l (p ++ "nonce"),
    responseMode := str l (p ++ "response_mode"), display := str l (p ++ "display"), prompt := list l (p ++ "prompt"),
    maxAge := if has l (p ++ "max_age") then some (nat l (p ++ "max_age")) else none,
    uiLocales := list l (p ++ "ui_locales"), idTokenHint := str l (p ++ "id_token_hint"), loginHint := str l (p ++ "login_hint"),
    acrValues := list l (p ++ "acr_values"), codeChallenge := str l (p ++ "cc"), codeChallengeMethod := str l (p ++ "ccm") }

def parseHonRequest (l : Line) : HonRequest :=
  { query := parseHonParams l "q.", object := if bool l "hasobj" then some (parseHonParams l "o.") else none,
    queryChallengeIs := str l "q.ccis", objectChallengeIs := str l "o.ccis" }

def parseHonObs (l : Line) : HonObs :=
  { authorize := str l "az", stored := parseHonParams l "s.", token := (list l "tk.k").zip ((list l "tk.v").map String.toNat!) }

def honObserved (l : Line) : String :=
  s!"az={esc (str l "az")};tok={String.intercalate "/" ((list l "tk.v"))}"

def docSummary (d : DiscoveryConfiguration) : String :=
  let n := (Field.all.filter (fun f => f.advertised d != "")).length
  s!"ep{n}gr{d.GrantTypesSupported.length}pk{d.CodeChallengeMethodsSupported.length}ro{if d.RequestParameterSupported then 1 else 0}"

def shape (e : Endpoint) : String := if e.isNil then "n" else if e.url != "" then "u" else "p"

def classOf (l : Line) : String :=
  match str l "kind" with
  | "config" =>
    let c := parseConfig l
    let shapes := String.join (Field.all.map fun f => shape (f.configured c.endpoints))
    s!"config:{str l "router"}:{str l "is.kind"}:{shapes}"
  | "options" =>
    s!"options:{str l "router"}:{str l "ctor"}:n{nat l "on"}:{if bool l "acc" then "accepted" else "refused:" ++ str l "o.err"}"
  | "visit" =>
    s!"visit:{str l "router"}:{str l "is.kind"}{if has l "is.hdrs" then "+custom" else ""}:hosts-per-provider-{nat l "nhosts"}:discovery-order-{str l "oclass"}:tokens-{str l "tokvia"}"
  | "honour" =>
    s!"honour:{str l "router"}:{str l "client"}:ro-{if bool l "hasobj" then (if bool l "d.reqobj" then "advertised" else "not-advertised") else "none"}:pkce-{str l "pk"}:{if (list l "d.pkce").isEmpty then "s256-not-advertised" else "s256-advertised"}"
  | "issuer" => s!"issuer:{if bool l "acc" then "accepted" else "rejected:" ++ str l "o.err"}"
  | "dynissuer" => s!"dynissuer:{str l "strategy"}:{if bool l "acc" then "accepted" else "rejected:" ++ str l "o.err"}"
  | "discover" => s!"discover:{if bool l "acc" then "accepted" else "rejected:" ++ str l "o.err"}"
  | k => "bad-kind:" ++ k

def observedOf (l : Line) : String :=
  match str l "kind" with
  | "config" => if str l "obs" == "panic" then "panic" else docSummary (parseDoc l)
  | "options" => if str l "obs" == "panic" then "panic" else if bool l "acc" then docSummary (parseDoc l) else "err:" ++ str l "o.err"
  | "visit" => if str l "obs" == "panic" then "panic" else s!"iss={esc (parseDoc l).Issuer};{docSummary (parseDoc l)}"
  | "honour" => if str l "obs" == "panic" then "panic" else honObserved l
  | _ => if str l "obs" == "panic" then "panic" else if bool l "acc" then "ok" else "err:" ++ str l "o.err"

def monitorLine (l : Line) : Option String :=
  if str l "obs" == "panic" then some "panic" else
  match str l "kind" with
  | "config" => monitor (parseConfig l) (parseObs l)
  | "visit" => monitorVisit (parseConfig l) (parseVisit l) (parseVisitObs l)
  | "options" => monitorOptions (parseOracleP l "is.arg" "ip.") (str l "is.arg") {} {} (optionsLegacy l) (parseOptionSpecs l) (bool l "acc") (parseObs l)
  | "honour" => if nat l "d.status" != 200 then some "discovery-unavailable" else
      monitorHonour (bool l "d.reqobj") (list l "d.pkce") (parseHonRequest l) (parseHonObs l)
  | "issuer" => monitorIssuer (parseOracle l "s") (str l "s") (bool l "insecure") (bool l "acc")
  | "dynissuer" => monitorDynamicIssuer (parseOracle l "path") (str l "path") (bool l "insecure") (bool l "acc") (opt l "o.iss")
  | "discover" => monitorDiscover (str l "asked") (str l "served") (if bool l "acc" then some (str l "o.iss") else none)
  | _ => some "bad-kind"

def stepMon (l : Line) : String :=
  s!"case={str l "case"} class={classOf l} model=- observed={observedOf l} monitor={showMon (monitorLine l)} agree=1"

end Drv.C19
