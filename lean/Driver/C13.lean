import Driver.C13Mon
import OidcModel.Generated.Jwks
open Kv Drv Jwks

/-
  Replay of an observed schedule on the model (transition system of Model/Jwks.lean instantiated with the
  facts and decision functions factgen regenerated from jwks.go): every step must be enabled in the model and
  produce exactly the observations the real code produced (for the `select`, whose choice is the runtime's when
  both cases are ready, one of the model's two answers must be the observed one).
-/
namespace Drv.C13

def clsOf (o : Outcome) (pid : Nat) : String :=
  match o with
  | .payload b => if b == pid then "ok" else "okwrong"
  | .noKey => "nokey"
  | .badSig => "badsig"
  | .ctxErr => "ctx"
  | .fetchErr .http5xx => "fe-5xx"
  | .fetchErr .badJson => "fe-json"
  | .fetchErr .cancelled => "fe-cancel"
  | .fetchErr .ok => "fe-other"
  | .panic => "panic"
  | .stuck => "stuck"
  | .other => "other"

/-- model observation -> the token the harness writes for it (step headers have none) -/
def showObs (s : State) : Obs → List String
  | .point (.caller c) n => [s!"h.c{c}.{n}"]
  | .point (.updater f) n => [s!"h.u{f}.{n}"]
  | .announce f => [s!"h.u{f}.done"]
  | .retire f => [s!"h.u{f}.published"]
  | .fetchBegin f c => [s!"g.u{f}.c{c}"]
  | .fetchEnd f none => [s!"x.u{f}"]
  | .finish c o => [s!"fin.c{c}.{clsOf o (s.callers c).tok.payload.bytes}"]
  | _ => []

/-- the model does not distinguish the two texts of an ended context (`context canceled` / `context deadline exceeded`) -/
def normTok (t : String) : String :=
  let cut (n : Nat) : String := String.ofList (t.toList.take (t.length - n))
  if t.endsWith ".ctxdl" then cut 2
  else if t.endsWith ".fe-deadline" then cut 8 ++ "cancel"
  else t

def actsFor (s : State) (st : Step) : List Act :=
  match st.kind with
  | "rot" => [.rotate st.keys]
  | "start" => [.start st.id st.tok]
  | "go" =>
    (match (s.callers st.id).pc with
     | .atCache => [.cacheRead st.id]
     | .atLock _ => [.enter st.id]
     | .atSelect _ _ => [.wake st.id false, .wake st.id true]
     | _ => [])
  | "cancel" => [.cancel st.id]
  | "expire" => [.expire st.id]
  | "resp" => [.respond st.id st.ans]
  | "upd" => [.upd st.id]
  | _ => []

/-- replay; returns the final state or the first step the model cannot follow -/
def replay (cfg : JwksSet) : State → Nat → List Step → Except String State
  | s, _, [] => .ok s
  | s, i, st :: rest =>
    if st.kind == "stuck" || st.kind == "crash" then .ok s else
    let cands := (actsFor s st).filterMap fun a =>
      match exec GenJwks.facts GenJwks.logic cfg s a with
      | some (s', obs) => some (s', obs.flatMap (showObs s'))
      | none => none
    match cands.find? (fun c => c.2 == st.obs.map normTok) with
    | some (s', _) => replay cfg s' (i + 1) rest
    | none =>
      let want := match cands with
        | [] => "not-enabled"
        | c :: _ => "/".intercalate c.2
      .error s!"s{i}:{st.kind}{st.id}:model<{want}>observed<{"/".intercalate st.obs}>"

def step (l : Line) : String :=
  if has l "soak" then stepMon l else
  let steps := parseSteps l
  let cfg : JwksSet := { skipRemoteCheck := bool l "skip" }
  let (model, agree) := match replay cfg {} 0 steps with
    | .ok _ => ("same", true)
    | .error e => (e, false)
  s!"case={str l "case"} class={classOf steps} model={model} observed={outcomesText steps} monitor={showMon (monitorLine l)} agree={if agree then 1 else 0}"

end Drv.C13
