import Driver.Kv
import OidcModel.Model.KeySet
open Kv

namespace Drv

def parseClaims (l : Line) (p : String) : Claims :=
  { iss := str l (p ++ "iss"), sub := str l (p ++ "sub"), aud := list l (p ++ "aud"), azp := str l (p ++ "azp"),
    exp := int l (p ++ "exp"), iat := int l (p ++ "iat"), authTime := int l (p ++ "auth"),
    nonce := str l (p ++ "nonce"), acr := str l (p ++ "acr"), atHash := str l (p ++ "athash"),
    cHash := str l (p ++ "chash"), clientID := str l (p ++ "client"), sigAlg := str l (p ++ "sigalg") }

def parseKty (s : String) : KeyType :=
  if s == "RSA" then .rsa else if s == "EC" then .ec else if s == "OKP" then .okp else .oct

def parseKeySet (l : Line) (p : String) : KeySet :=
  let kind := match str l (p ++ "kind") with
    | "static" => KeySetKind.static
    | "jwtProfile" => .jwtProfile
    | _ => .published
  let n := nat l (p ++ "n")
  { kind := kind,
    keys := (List.range n).map fun i =>
      let q := p ++ toString i ++ "."
      { KeyID := str l (q ++ "kid"), Use := str l (q ++ "use"), kty := parseKty (str l (q ++ "kty")), keyNo := nat l (q ++ "no") } }

def parseSig (l : Line) (q : String) : JSig :=
  { Header := { Algorithm := str l (q ++ "alg"), KeyID := str l (q ++ "kid") },
    signer := if has l (q ++ "signer") then some (nat l (q ++ "signer")) else none,
    signedAlg := str l (q ++ "salg"), signedBytes := nat l (q ++ "sbytes"),
    signedHdr := { Algorithm := str l (q ++ "shalg"), KeyID := str l (q ++ "shkid") } }

/-- token: `t.segs`, `t.mid` (bytes id; absent = undecodable), `t.json` (payload decodes), claims `c.*`,
    `t.jws` (go-jose parses), `j.bytes`, `j.n`, signatures `s<i>.*` -/
def parseToken (l : Line) : Token :=
  let claims := if bool l "t.json" then some (parseClaims l "c.") else none
  let mid : Option Payload := if has l "t.mid" then some { bytes := nat l "t.mid", claims := claims } else none
  let jws : Option JWS :=
    if bool l "t.jws" then
      let jb := nat l "j.bytes"
      let jp : Payload := match mid with
        | some m => if m.bytes == jb then m else { bytes := jb, claims := none }
        | none => { bytes := jb, claims := none }
      some { Signatures := (List.range (nat l "j.n")).map fun i => parseSig l ("s" ++ toString i ++ "."), payload := jp }
    else none
  { segs := nat l "t.segs", middle := mid, jws := jws }

def parseVerifier (l : Line) : Verifier :=
  let acr : Option (String → Go.R Unit) :=
    if has l "v.acr" then
      let ok := list l "v.acr"
      some fun a => if ok.contains a then .ok () else .error "acr"
    else none
  { Issuer := str l "v.iss", ClientID := str l "v.cid", Offset := int l "v.off", MaxAgeIAT := int l "v.maxiat",
    MaxAge := int l "v.maxage", SupportedSignAlgs := list l "v.algs", Nonce := opt l "v.nonce", ACR := acr,
    KeySet := parseKeySet l "ks." }

def showR {α} (r : Go.R α) : String :=
  match r with
  | .ok _ => "ok"
  | .error e => "err:" ++ (if e.startsWith "Err" then e else "other")

def showMon (m : Option String) : String :=
  match m with
  | none => "ok"
  | some c => "VIOLATED:" ++ c

end Drv
