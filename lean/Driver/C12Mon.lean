import Driver.Common
import OidcModel.Spec.C12
open Kv Drv Codec

namespace Drv.C12

def pairs : List String → Obj
  | k :: v :: rest => (k, v) :: pairs rest
  | _ => []

def obj (l : Line) (k : String) : Obj := pairs (list l k)

def parseAtom (s : String) : JAtom :=
  let rest : String := String.ofList (s.toList.drop 2)
  if s == "n" then .null
  else if s.startsWith "b:" then .bool (rest == "true")
  else if s.startsWith "i:" then .int (rest.toInt?.getD 0)
  else if s.startsWith "f:" then
    match rest.splitOn ":" with
    | [t, ok] => .float (t.toInt?.getD 0) (ok == "true")
    | _ => .obj
  else if s.startsWith "s:" then .str rest
  else .obj

def parseDoc (l : Line) : JIn :=
  let toks := (list l "doc").map parseAtom
  if str l "doc.t" == "arr" then .arr toks else .atom (toks.headD .null)

def hexByte (a b : Char) : UInt8 := UInt8.ofNat ((hexVal a).getD 0 * 16 + (hexVal b).getD 0)
def hexBytes : List Char → List UInt8
  | a :: b :: rest => hexByte a b :: hexBytes rest
  | _ => []
def bytesOf (l : Line) (k : String) : List UInt8 := hexBytes (str l k).toList
def optBytes (l : Line) (k : String) : Option (List UInt8) := if has l k then some (bytesOf l k) else none

/-- block function given as the table of the evaluations the real AES made -/
def tableFn (tab : List (List UInt8 × List UInt8)) (b : List UInt8) : List UInt8 :=
  match tab.find? (·.1 == b) with
  | some p => p.2
  | none => List.replicate 16 0

def parseTable (l : Line) : List (List UInt8 × List UInt8) :=
  let rec go : List String → List (List UInt8 × List UInt8)
    | a :: b :: rest => (hexBytes a.toList, hexBytes b.toList) :: go rest
    | _ => []
  go (list l "E")

def rfcOracle (l : Line) : String → Option Int := fun _ => if has l "rfc" then some (int l "rfc") else none

def monitorLine (l : Line) : Option String :=
  if str l "obs" == "panic" then some "panic" else
  match str l "kind" with
  | "marshal" =>
    if str l "obs" == "decode-refused" then
      -- decoding the produced document may be refused only when a custom claim took the place of an
      -- unset registered claim (wrong type for that name); the document itself must still be right
      match C12.marshalOK (obj l "reg") (obj l "custom") (obj l "o.obj") with
      | some c => some c
      | none => if bool l "collide" then none else some "roundtrip-refused"
    else
    if str l "obs" != "ok" then some "marshal-failed" else
    match C12.marshalOK (obj l "reg") (obj l "custom") (obj l "o.obj") with
    | some c => some c
    | none => C12.roundTripOK (obj l "reg") (obj l "custom") (obj l "o.reg2") (obj l "o.custom2")
  | "claimsdoc" =>
    C12.badMemberOK (obj l "doc") (str l "bad") (if str l "obs" == "ok" then some (obj l "o.reg2") else none)
  | "aud" =>
    let o : Out (List String) := if str l "obs" == "val" then .val (list l "o.v") else .err
    if C12.audienceOK (parseDoc l) o then none else some "audience-decoding"
  | "time" =>
    let o : Out Int := if str l "obs" == "val" then .val (int l "o.v") else .err
    if C12.timeOK (rfcOracle l) (parseDoc l) o then none else some "time-decoding"
  | "bool" =>
    let o : Out Bool := if str l "obs" == "val" then .val (bool l "o.v") else .err
    if C12.boolOK (parseDoc l) o then none else some "bool-decoding"
  | "seal" =>
    if str l "obs" != "ok" then some "encrypt-failed" else
    C12.sealOK (bytesOf l "plain") (optBytes l "o.same") (optBytes l "o.other")
  | _ => some "bad-kind"

def showOut {α} : Out α → String
  | .val _ => "val"
  | .err => "err"
  | .panic => "panic"

/-- model prediction and whether the implementation agrees with it -/
def modelLine (l : Line) : String × Bool :=
  match str l "kind" with
  | "marshal" =>
    let m := merge (obj l "reg") (obj l "custom")
    ("obj", (str l "obs" == "ok" || str l "obs" == "decode-refused") && C12.sameMap m (obj l "o.obj"))
  | "claimsdoc" => ("err", str l "obs" == "err")   -- the model: a member in an unsupported form is refused
  | "aud" =>
    let m := decodeAudience (parseDoc l)
    let o : Out (List String) := if str l "obs" == "val" then .val (list l "o.v") else if str l "obs" == "panic" then .panic else .err
    (showOut m, m == o)
  | "time" =>
    let m := decodeTime (rfcOracle l) (parseDoc l)
    let o : Out Int := if str l "obs" == "val" then .val (int l "o.v") else if str l "obs" == "panic" then .panic else .err
    (showOut m, m == o)
  | "bool" =>
    let m := decodeBool (parseDoc l)
    let o : Out Bool := if str l "obs" == "val" then .val (bool l "o.v") else if str l "obs" == "panic" then .panic else .err
    (showOut m, m == o)
  | "seal" =>
    -- the model re-computes the ciphertext from the iv the implementation drew and AES's block evaluations
    let raw := bytesOf l "o.raw"
    let E := tableFn (parseTable l)
    let m := Cfb.sealBytes E 16 (raw.take 16) (bytesOf l "plain")
    let enc := String.ofList (B64.encode m)
    ("sealed", str l "obs" == "ok" && m == raw && enc == str l "o.enc"
      && Cfb.unsealBytes E 16 raw == some (bytesOf l "plain"))
  | _ => ("?", false)

def step (l : Line) : String :=
  let (m, agree) := modelLine l
  s!"case={str l "case"} class={str l "kind"}:{str l "type"}:{str l "obs"} model={m} observed={str l "obs"} monitor={showMon (monitorLine l)} agree={if agree then 1 else 0}"

end Drv.C12
