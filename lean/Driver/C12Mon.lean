import Driver.Common
import OidcModel.Spec.C12
open Kv Drv Codec

namespace Drv.C12

def pairs : List String → Obj
  | k :: v :: rest => (k, v) :: pairs rest
  | _ => []

def obj (l : Line) (k : String) : Obj := pairs (list l k)

def parseAtom (s : String) : JAtom :=
  let rest : String := String.ofList (s.toList.drop 2)
  if s == "n" then .null
  else if s.startsWith "b:" then .bool (rest == "true")
  else if s.startsWith "i:" then .int (rest.toInt?.getD 0)
  else if s.startsWith "f:" then
    match rest.splitOn ":" with
    | [t, ok] => .float (t.toInt?.getD 0) (ok == "true")
    | _ => .obj
  else if s.startsWith "s:" then .str rest
  else .obj

def parseDoc (l : Line) : JIn :=
  let toks := (list l "doc").map parseAtom
  if str l "doc.t" == "arr" then .arr toks else .atom (toks.headD .null)

def hexByte (a b : Char) : UInt8 := UInt8.ofNat ((hexVal a).getD 0 * 16 + (hexVal b).getD 0)
def hexBytes : List Char → List UInt8
  | a :: b :: rest => hexByte a b :: hexBytes rest
  | _ => []
def bytesOf (l : Line) (k : String) : List UInt8 := hexBytes (str l k).toList
def optBytes (l : Line) (k : String) : Option (List UInt8) := if has l k then some (bytesOf l k) else none

/-- block function given as the table of the evaluations the real AES made -/
def tableFn (tab : List (List UInt8 × List UInt8)) (b : List UInt8) : List UInt8 :=
  match tab.find? (·.1 == b) with
  | some p => p.2
  | none => List.replicate 16 0

def parseTable (l : Line) : List (List UInt8 × List UInt8) :=
  let rec go : List String → List (List UInt8 × List UInt8)
    | a :: b :: rest => (hexBytes a.toList, hexBytes b.toList) :: go rest
    | _ => []
  go (list l "E")

def rfcOracle (l : Line) : String → Option Int := fun _ => if has l "rfc" then some (int l "rfc") else none

/-! ### generic JSON documents (token list `j`, see harness c12codec.go) and the x/text oracle table -/

def parseF64 (s : String) : Cdc.F64 :=
  match s.splitOn ":" with
  | [fl, fr, nan] => { floor := fl.toInt?.getD 0, frac := fr == "1", nan := nan == "1" }
  | _ => { floor := 0 }

def dropPrefix2 (s : String) : String := String.ofList (s.toList.drop 2)

mutual
  /-- one value; `fuel` bounds the nesting + length -/
  def parseJVal : Nat → List String → Cdc.JVal × List String
    | 0, ts => (.null, ts)
    | fuel + 1, t :: ts =>
      if t == "n" then (.null, ts)
      else if t == "t" then (.bool true, ts)
      else if t == "f" then (.bool false, ts)
      else if t.startsWith "d:" then (.num (parseF64 (dropPrefix2 t)), ts)
      else if t.startsWith "s:" then (.str (dropPrefix2 t), ts)
      else if t == "[" then let (l, r) := parseJArr fuel ts; (.arr l, r)
      else if t == "{" then let (o, r) := parseJObj fuel ts; (.obj o, r)
      else (.null, ts)
    | _, [] => (.null, [])
  def parseJArr : Nat → List String → List Cdc.JVal × List String
    | 0, ts => ([], ts)
    | fuel + 1, ts =>
      match ts with
      | [] => ([], [])
      | t :: rest =>
        if t == "]" then ([], rest) else
        let (v, r) := parseJVal fuel ts
        let (vs, r2) := parseJArr fuel r
        (v :: vs, r2)
  def parseJObj : Nat → List String → List (String × Cdc.JVal) × List String
    | 0, ts => ([], ts)
    | fuel + 1, ts =>
      match ts with
      | [] => ([], [])
      | t :: rest =>
        if t == "}" then ([], rest) else
        let (v, r) := parseJVal fuel rest
        let (vs, r2) := parseJObj fuel r
        ((dropPrefix2 t, v) :: vs, r2)
end

def parseJ (l : Line) : Cdc.JVal :=
  let toks := list l "j"
  (parseJVal (2 * toks.length + 2) toks).1

structure TagRow where
  s : String
  cls : String
  tag : Cdc.Tag
  perr : String
  ptag : Cdc.Tag

def zip7 : List String → List String → List String → List String → List String → List String → List String → List TagRow
  | s :: ss, c :: cs, t :: ts, r :: rs, pe :: pes, pt :: pts, pr :: prs =>
    { s := s, cls := c, tag := { s := t, root := r == "1" }, perr := pe, ptag := { s := pt, root := pr == "1" } } :: zip7 ss cs ts rs pes pts prs
  | _, _, _, _, _, _, _ => []

def tagRows (l : Line) : List TagRow :=
  zip7 (list l "e.s") (list l "e.cls") (list l "e.tag") (list l "e.root") (list l "e.perr") (list l "e.ptag") (list l "e.proot")

/-- how x/text reads the string WITHOUT canonicalisation (Tag.UnmarshalText; used for `Locale`) -/
def rawClass (rows : List TagRow) (s : String) : C12.TagClass :=
  match rows.find? (·.s == s) with
  | some r => if r.cls == "valid" then .valid r.tag else if r.cls == "unknown" then .unknown else .illformed
  | none => .illformed
/-- how `language.Parse` reads it (canonicalising; used for `Locales`) -/
def parseClass (rows : List TagRow) (s : String) : C12.TagClass :=
  match rows.find? (·.s == s) with
  | some r => if r.perr == "" then .valid r.ptag else if r.perr == "language.ValueError" then .unknown else .illformed
  | none => .illformed

def obsTag (l : Line) : Cdc.Tag := { s := str l "o.s", root := bool l "o.root" }
def obsTags (l : Line) : List Cdc.Tag :=
  let rec go : List String → List String → List Cdc.Tag
    | s :: ss, r :: rs => { s := s, root := r == "1" } :: go ss rs
    | _, _ => []
  go (list l "o.s") (list l "o.root")

def outOfLine {α} (l : Line) (v : α) : Out α :=
  if str l "obs" == "val" then .val v else if str l "obs" == "panic" then .panic else .err

def loc2Of (l : Line) : Out (Option Cdc.Tag) :=
  let s := str l "o.loc2"
  if s == "nil" then .val none
  else if s.startsWith "tag:" then
    let t := String.ofList (s.toList.drop 4)
    .val (some { s := t, root := t == "und" })
  else .err

/-- monitor for the kinds of the generic-document part of the stream; `none` = not one of them -/
def monitorJ (l : Line) : Option (Option String) :=
  let doc := parseJ l
  let rows := tagRows l
  let flag (ok : Bool) (c : String) : Option (Option String) := some (if ok then none else some c)
  match str l "kind" with
  | "locale" => flag (C12.localeOK (rawClass rows) doc (outOfLine l (obsTag l))) "locale-decoding"
  | "locales" => flag (C12.localesOK (parseClass rows) doc (outOfLine l (obsTags l))) "locales-decoding"
  | "docrt" =>
    let member := if bool l "has" then some doc else none
    let dec : Option Cdc.Tag := if has l "o.s" then some (obsTag l) else none
    let r := C12.docLocaleOK (rawClass rows) member (str l "text") (outOfLine l dec) (lookup (obj l "o.obj") "locale")
    some (match r with
      | some c => some c
      | none => if str l "obs" == "val" then C12.secondDecodeOK dec (loc2Of l) else none)
  | "jaud" => flag (C12.audienceOKJ doc (outOfLine l (list l "o.v"))) "audience-decoding"
  | "jtime" =>
    let tp : String → Go.R Int := fun _ => if has l "tp" then .ok (int l "tp") else .error "time"
    flag (C12.timeOKJ tp doc (outOfLine l (int l "o.v"))) "time-decoding"
  | "jbool" => flag (C12.boolOKJ doc (outOfLine l (bool l "o.v"))) "bool-decoding"
  | "jspace" => flag (C12.spaceOK doc (outOfLine l (list l "o.v"))) "space-delimited-decoding"
  | "jdisplay" => flag (C12.displayOK (str l "dtext") (outOfLine l (str l "o.v"))) "display-decoding"
  | "unseal" => some (C12.unsealOK (bytesOf l "raw").length (outOfLine l (bytesOf l "o.plain")))
  | "wenc" =>
    if str l "obs" != "ok" then some (some "marshal-failed") else
    some (C12.encodeStepOK (str l "type" == "IntrospectionResponse") (obj l "reg") (obj l "custom") (obj l "o.obj") (obj l "o.custom2")
      (str l "user") (str l "pref") (str l "o.user"))
  | "wdec" =>
    some (C12.decodeStepOK (str l "type" == "IntrospectionResponse") (str l "obs" == "ok") (bool l "fresh") (bool l "rt") (bool l "collide") (list l "names") (obj l "doc")
      (obj l "o.reg2") (obj l "o.custom2") (obj l "src.reg") (obj l "src.custom"))
  | _ => none

def monitorLine (l : Line) : Option String :=
  if str l "obs" == "panic" then some "panic" else
  match monitorJ l with
  | some r => r
  | none =>
  match str l "kind" with
  | "marshal" =>
    if str l "obs" == "decode-refused" then
      -- decoding the produced document may be refused only when a custom claim took the place of an
      -- unset registered claim (wrong type for that name); the document itself must still be right
      match C12.marshalOK (obj l "reg") (obj l "custom") (obj l "o.obj") with
      | some c => some c
      | none => if bool l "collide" then none else some "roundtrip-refused"
    else
    if str l "obs" != "ok" then some "marshal-failed" else
    match C12.marshalOK (obj l "reg") (obj l "custom") (obj l "o.obj") with
    | some c => some c
    | none => C12.roundTripOK (obj l "reg") (obj l "custom") (obj l "o.reg2") (obj l "o.custom2")
  | "claimsdoc" =>
    C12.badMemberLosslessOK (obj l "doc") (str l "bad") ["role"] (if str l "obs" == "ok" then some (obj l "o.reg2") else none)
  | "aud" =>
    let o : Out (List String) := if str l "obs" == "val" then .val (list l "o.v") else .err
    if C12.audienceOK (parseDoc l) o then none else some "audience-decoding"
  | "time" =>
    let o : Out Int := if str l "obs" == "val" then .val (int l "o.v") else .err
    if C12.timeOK (rfcOracle l) (parseDoc l) o then none else some "time-decoding"
  | "bool" =>
    let o : Out Bool := if str l "obs" == "val" then .val (bool l "o.v") else .err
    if C12.boolOK (parseDoc l) o then none else some "bool-decoding"
  | "seal" =>
    if str l "obs" != "ok" then some "encrypt-failed" else
    C12.sealOK (bytesOf l "plain") (optBytes l "o.same") (optBytes l "o.other")
  | _ => some "bad-kind"

def showOut {α} : Out α → String
  | .val _ => "val"
  | .err => "err"
  | .panic => "panic"

/-- model prediction and whether the implementation agrees with it -/
def modelLine (l : Line) : String × Bool :=
  match str l "kind" with
  | "marshal" =>
    let m := merge (obj l "reg") (obj l "custom")
    ("obj", (str l "obs" == "ok" || str l "obs" == "decode-refused") && C12.sameMap m (obj l "o.obj"))
  | "claimsdoc" => ("err", str l "obs" == "err")   -- the model: a member in an unsupported form is refused
  | "aud" =>
    let m := decodeAudience (parseDoc l)
    let o : Out (List String) := if str l "obs" == "val" then .val (list l "o.v") else if str l "obs" == "panic" then .panic else .err
    (showOut m, m == o)
  | "time" =>
    let m := decodeTime (rfcOracle l) (parseDoc l)
    let o : Out Int := if str l "obs" == "val" then .val (int l "o.v") else if str l "obs" == "panic" then .panic else .err
    (showOut m, m == o)
  | "bool" =>
    let m := decodeBool (parseDoc l)
    let o : Out Bool := if str l "obs" == "val" then .val (bool l "o.v") else if str l "obs" == "panic" then .panic else .err
    (showOut m, m == o)
  | "seal" =>
    -- the model re-computes the ciphertext from the iv the implementation drew and AES's block evaluations
    let raw := bytesOf l "o.raw"
    let E := tableFn (parseTable l)
    let m := Cfb.sealBytes E 16 (raw.take 16) (bytesOf l "plain")
    let enc := String.ofList (B64.encode m)
    ("sealed", str l "obs" == "ok" && m == raw && enc == str l "o.enc"
      && Cfb.unsealBytes E 16 raw == some (bytesOf l "plain"))
  | k => if (monitorJ l).isSome then ("-", true) else ("?" ++ k, false)

def step (l : Line) : String :=
  let (m, agree) := modelLine l
  s!"case={str l "case"} class={str l "kind"}:{str l "type"}:{str l "obs"} model={m} observed={str l "obs"} monitor={showMon (monitorLine l)} agree={if agree then 1 else 0}"

end Drv.C12
