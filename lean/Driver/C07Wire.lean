/-
  Model side of the wire-level lines of the C04 / C07 streams: the token request as it travelled through
  `Flow.stepX` (regenerated wire-level dispatch of both routers), a changed registration through `Flow.reRegister`.
-/
import Driver.C07WireMon
import OidcModel.Model.C07Wire
open Kv Drv

namespace Drv.Wire

def showOutX (o : _root_.Flow.OutX) : String :=
  match o with
  | .base (.issued (.code a c _) nr) => s!"ok:{a.subject}:{c.id}:{a.scopes}:{a.nonce}:{nr.getD "-"}".replace " " ""
  | .base (.issued (.refresh r c _) nr) =>
    s!"ok:{r.subject}:{c.id}:{r.scopes}::{nr.getD "-"}|at:{r.subject}:{r.clientID}:{r.scopes}:{r.audience}".replace " " ""
  | .base (.error e) => "err:" ++ _root_.Flow.oauthCode e
  | .base _ => "?"
  | .other h => "other:" ++ h

/-- what the implementation answered, in the same notation (a response for which the storage was handed a refresh token
    for rotation is a refresh response, whatever the line calls the request) -/
def showObsX (l : Line) : String :=
  match str l "obs" with
  | "ok" =>
    if has l "o.handed" then
      s!"ok:{str l "o.rtsub"}:{str l "o.rtclient"}:{list l "o.rtscopes"}::{if has l "o.rt" then str l "o.rt" else "-"}|at:{str l "o.sub"}:{str l "o.client"}:{list l "o.scopes"}:{list l "o.aud"}".replace " " ""
    else
      s!"ok:{str l "o.sub"}:{str l "o.client"}:{list l "o.scopes"}:{str l "o.nonce"}:{if has l "o.rt" then str l "o.rt" else "-"}".replace " " ""
  | "err" => "err:" ++ str l "o.err"
  | x => x

def modelToken (now : Int) (st : _root_.Flow.St) (rt : _root_.Flow.Router) (l : Line) : _root_.Flow.St × String :=
  let (s, o) := _root_.Flow.stepX now st (.token rt (parseWire l) (bool l "fault.delete"))
  (s, showOutX o)

end Drv.Wire
