import Driver.C08Mon
import OidcModel.Model.ResourceFlow
open Kv Drv

namespace Drv.C08

structure FullSt where
  mon : _root_.C08.MonState := {}
  mod : Res.St := {}
  atp : ResATProvider := {}
  clients : List OPClient := []
  router : Res.Router := .provider
  deriving Inhabited

/-- the inputs of the request on this line: clock, issuer it is addressed to, and what the real AES / go-jose code made of the
    presented string (the oracles of the model) -/
def envOf (clients : List OPClient) (l : Line) : Res.Env :=
  let tok := parseToken l
  let plain := opt l "p.plain"
  { now := int l "now0", issuer := str l "iss",
    decrypt := fun _ => match plain with | some s => .ok s | none => .error "decrypt",
    tokenOf := fun _ => tok, jtiOf := fun _ => str l "p.jti",
    -- what the Provider router's request parsers read: the registrations and `Provider.JWTProfileVerifier(ctx)`
    clientStore := { clients := clients }, postSupported := true, pkjwtSupported := true,
    jwtProfileVerifier := { Issuer := str l "iss", MaxAgeIAT := 3600 * Go.second, Offset := Go.second, Storage := _root_.C04.registry clients } }

/-- who the caller is authenticated as, by the reference storage's rules (model side) -/
def modelCaller (fs : FullSt) (l : Line) (now : Int) (allowPublic : Bool) : Option String :=
  (_root_.C08.callerOf fs.mon now (presented l) allowPublic).map (·.id)

/-- the HTTP request of an introspection / revocation line as the REGENERATED parsers of the Provider router see it -/
def requestOf (fs : FullSt) (l : Line) (now : Int) : ResHttpReq :=
  let auth := str l "auth"
  let cid := str l "cid"
  let inForm := auth == "post" || auth == "id-only"
  { Form := { Token := str l "raw", TokenTypeHint := str l "hint",
              ClientID := if inForm then cid else "", ClientSecret := if auth == "post" then str l "secret" else "",
              ClientAssertion := if auth == "assertion" then "assertion" else "",
              ClientAssertionType := if auth == "assertion" then Const.ClientAssertionTypeJWTAssertion else "" },
    basic := if auth == "basic" then some (cid, str l "secret") else none,      -- ids and secrets of the stream need no percent-escaping
    assertionToken := parseToken l,
    -- `ClientIDFromRequest`: Basic auth or an assertion authenticates, a client_id in the form only identifies
    identified :=
      if inForm then (if cid == "" then .error "ErrInvalidClient" else .ok (cid, false))
      else match modelCaller fs l now false with
        | some c => .ok (c, true)
        | none => .error "ErrInvalidClient" }

def showRef : Option Res.Ref → String
  | some (.at id) => "accepted:" ++ id
  | some (.rt t) => "accepted:" ++ t
  | none => "refused"

def step (fs : FullSt) (l : Line) : FullSt × String :=
  let (mon', v) := monStep fs.mon l
  let now := int l "now0"
  let e := envOf fs.clients l
  let raw := str l "raw"
  let (mod', modelS, obsS) : Res.St × String × String :=
    match str l "op" with
    | "reset" => ({}, "reset", "reset")
    | "issue" =>
      let rt : Option Res.RTok := if str l "rt" != "" then some { token := str l "rt", client := str l "client", subject := str l "sub", access := str l "id", issuer := str l "iss" } else none
      ((Res.step fs.atp fs.mod (.issue { id := str l "id", client := str l "client", subject := str l "sub", audience := list l "aud", refresh := str l "rt", issuer := str l "iss" } rt)).1,
       "issued", "issued")
    | "expire" => ((Res.step fs.atp fs.mod (.expire (if str l "kind" == "rt" then .rt (str l "id") else .at (str l "id")))).1, "expired", "expired")
    | "userinfo" =>
      (fs.mod, (match Res.userinfo fs.router fs.atp e fs.mod raw with | .claims u => "200:" ++ u.Subject | .refused c => toString c),
       (if nat l "o.status" == 200 then "200:" ++ str l "o.sub" else toString (nat l "o.status")))
    | "introspect" =>
      -- Provider router: the whole request through the regenerated parser; legacy server: the caller `authenticateResourceClient` establishes
      let r := if fs.router == .provider then Res.introspectRequest fs.atp e fs.mod (requestOf fs l now)
               else Res.introspect fs.router fs.atp e fs.mod (modelCaller fs l now false) raw
      (fs.mod, (match r with
                | .answer r => if r.Active then "active" else "inactive"
                | .unauthorized => "unauthorized"),
       (if bool l "o.active" then "active" else if nat l "o.status" == 200 then "inactive" else "unauthorized"))
    | "revoke" =>
      let (s', r) := if fs.router == .provider then Res.revokeRequest fs.atp e fs.mod (requestOf fs l now)
                     else Res.revoke fs.router fs.atp e fs.mod (modelCaller fs l now true) (str l "hint") raw
      (s', (match r with | .ok => "ok" | .refused => "refused"), (if nat l "o.status" == 200 then "ok" else "refused"))
    | "endsession" => (if bool l "o.terminated" then fs.mod.TerminateSession (str l "iss") (str l "sub") (str l "client") else fs.mod, "done", "done")
    | "exchange" =>
      (fs.mod, (if (Res.exchange fs.atp e fs.mod (str l "stype" == "refresh") raw).isSome then "accepted" else "refused"),
       (if bool l "o.success" then "accepted" else "refused"))
    | "refresh" =>
      let (s', r) := Res.step fs.atp fs.mod (.refresh (str l "iss") raw)
      (s', (if r.isSome then "accepted" else "refused"), (if bool l "o.success" then "accepted" else "refused"))
    | _ => (fs.mod, "?", "?")
  let agree := modelS == obsS
  let fs' : FullSt :=
    if str l "op" == "reset" then
      -- a request-derived issuer: the reference storage keeps the tenants apart (refstore MultiTenant)
      { mon := mon', mod := { partitioned := str l "issmode" != "static" }, atp := { accessTokenKeySet := parseKeySet l "ks." }, clients := Drv.Flow.parseClients l, router := if str l "router" == "legacy" then .legacy else .provider }
    else { fs with mon := mon', mod := mod' }
  (fs', s!"case={str l "case"} class={cls l} model={modelS} observed={obsS} monitor={showMon v} agree={if agree then 1 else 0}")

end Drv.C08
