import Driver.C08Mon
import OidcModel.Model.ResourceTime
import OidcModel.Generated.IssueC06
open Kv Drv

namespace Drv.C08

structure FullSt where
  mon : _root_.C08.MonState := {}
  mod : Res.Timed := {}
  atp : ResATProvider := {}
  termFromReq : Bool := false        -- the storage implements op.CanTerminateSessionFromRequest
  defaultLogoutURI : String := ""
  clients : List OPClient := []
  router : Res.Router := .provider
  deriving Inhabited

/-- the inputs of the request on this line: clock, issuer it is addressed to, and what the real AES / go-jose code made of the
    presented string (the oracles of the model) -/
def envOf (clients : List OPClient) (l : Line) (now : Int) : Res.Env :=
  let tok := parseToken l
  let plain := opt l "p.plain"
  { now := now, issuer := str l "iss",
    -- the storage method that was made to fail while this request was served (an input of the history)
    faults := if str l "fault" == "" then [] else [str l "fault"],
    -- (a delegation exchange presents a second string, the actor token: its plaintext travels as `a.plain`)
    decrypt := fun s => if has l "atok" && s == str l "a.raw" then (match opt l "a.plain" with | some p => .ok p | none => .error "decrypt")
                        else match plain with | some s => .ok s | none => .error "decrypt",
    -- (the actor string of a delegation exchange is never a JWT in this stream)
    tokenOf := fun s => if has l "atok" && s == str l "a.raw" then default else tok, jtiOf := fun _ => str l "p.jti",
    -- what the Provider router's request parsers read: the registrations and `Provider.JWTProfileVerifier(ctx)`
    clientStore := { clients := clients }, postSupported := true, pkjwtSupported := true,
    jwtProfileVerifier := { Issuer := str l "iss", MaxAgeIAT := 3600 * Go.second, Offset := Go.second, Storage := _root_.C04.registry clients } }

/-- who the caller is authenticated as, by the reference storage's rules (model side) -/
def modelCaller (fs : FullSt) (l : Line) (now : Int) (allowPublic : Bool) : Option String :=
  (_root_.C08.callerOf fs.mon now (presented l) allowPublic).map (·.id)

/-- the HTTP request of an introspection / revocation line as the REGENERATED parsers of the Provider router see it -/
def requestOf (fs : FullSt) (l : Line) (now : Int) : ResHttpReq :=
  let auth := str l "auth"
  let cid := str l "cid"
  let inForm := auth == "post" || auth == "id-only"
  { Form := { Token := str l "raw", TokenTypeHint := str l "hint",
              ClientID := if inForm then cid else "", ClientSecret := if auth == "post" then str l "secret" else "",
              ClientAssertion := if auth == "assertion" then "assertion" else "",
              ClientAssertionType := if auth == "assertion" then Const.ClientAssertionTypeJWTAssertion else "" },
    basic := if auth == "basic" then some (cid, str l "secret") else none,      -- ids and secrets of the stream need no percent-escaping
    assertionToken := parseToken l,
    -- `ClientIDFromRequest`: Basic auth or an assertion authenticates, a client_id in the form only identifies
    identified :=
      if inForm then (if cid == "" then .error "ErrInvalidClient" else .ok (cid, false))
      else match modelCaller fs l now false with
        | some c => .ok (c, true)
        | none => .error "ErrInvalidClient" }

def showRef : Option Res.Ref → String
  | some (.at id) => "accepted:" ++ id
  | some (.rt t) => "accepted:" ++ t
  | none => "refused"

/-- the `exp` claim the REGENERATED `CreateAccessToken` / `CreateJWT` write into a JWT access token when the storage returned `exp` and
    the client's `ClockSkew()` is `skew`: the signer is shown the claims -/
def modelExpClaim (now exp skew : Int) (id : String) : String :=
  match GenC06.CreateAccessToken now {} IssConst.AccessTokenTypeJWT
      { Storage := { CreateAccessToken := fun _ => .ok (id, exp), SigningKey := .ok { signAT := fun c => .ok (toString c.Expiration) } } }
      { ClockSkew := skew } "" with
  | .ok (t, _, _) => t
  | .error e => "err:" ++ e

/-- the provider as the end_session code of both routers sees it while serving the request of this line -/
def enderOf (fs : FullSt) (l : Line) : SessionEnder :=
  Sess.constructedEnder 0 (str l "iss") fs.atp.accessTokenKeySet [] fs.atp.accessTokenVerifierOpts
    { clients := fs.clients, is_CanTerminateSessionFromRequest := fs.termFromReq } fs.defaultLogoutURI

/-- the model's answer to the line when the request is made at `now`: new storage state, model string -/
def modelAt (fs : FullSt) (l : Line) (now : Int) : Res.Timed × String :=
  let e := envOf fs.clients l now
  let raw := str l "raw"
  let y := fs.mod.tick now          -- the storage as a call made at `now` sees it
  match str l "op" with
  | "issue" =>
    let rt : Option Res.RTok := if str l "rt" != "" then some { token := str l "rt", client := str l "client", subject := str l "sub", access := str l "id", issuer := str l "iss", exp := int l "rtexp" } else none
    let t : Res.Tok := { id := str l "id", client := str l "client", subject := str l "sub", audience := list l "aud", refresh := str l "rt", issuer := str l "iss", exp := int l "exp", jwt := bool l "jwt", openid := !(has l "openid") || bool l "openid" }
    ((Res.stepT fs.atp fs.mod (.issue t rt)).1,
     if bool l "jwt" then "issued:exp=" ++ modelExpClaim now (int l "exp") (int l "skew") (str l "id") else "issued")
  | "expire" => ((Res.stepT fs.atp fs.mod (.expire (if str l "kind" == "rt" then .rt (str l "id") else .at (str l "id")))).1, "expired")
  | "userinfo" =>
    (y, match Res.userinfo fs.router fs.atp e y.st raw with | .claims u => "200:" ++ u.Subject | .refused c => toString c)
  | "introspect" =>
    -- Provider router: the whole request through the regenerated parser; legacy server: the caller `authenticateResourceClient` establishes
    let r := if fs.router == .provider then Res.introspectRequest fs.atp e y.st (requestOf fs l now)
             else Res.introspect fs.router fs.atp e y.st (modelCaller fs l now false) raw
    (y, match r with
        | .answer r => if r.Active then "active" else "inactive"
        | .unauthorized => "unauthorized")
  | "revoke" =>
    let (s', r) := if fs.router == .provider then Res.revokeRequest fs.atp e y.st (requestOf fs l now)
                   else Res.revoke fs.router fs.atp e y.st (modelCaller fs l now true) (str l "hint") raw
    ({ y with st := s' }, match r with | .ok => "ok" | .refused => "refused")
  | "endsession" =>
    -- both routers' REGENERATED end_session handlers, on the token tables, under the storage fault of the line
    let o : SessOracles := { pathMatch := fun _ _ => .ok false, urlParse := fun _ => .error "no state in this stream", tokenOf := fun _ => parseToken l }
    let (s', ans) := Res.logout (if fs.router == .legacy then .legacy else .provider) now o (.ok { IdTokenHint := "hint" }) (enderOf fs l) e.faults (str l "iss") y.st
    ({ y with st := s' }, match ans with | .redirect _ => "redirect" | .error st _ => "error:" ++ toString st)
  | "exchange" =>
    let actor := if has l "atok" then some (str l "a.raw") else none
    (y, if (Res.exchangeD fs.atp e y.st (str l "stype" == "refresh") raw actor).isSome then "accepted" else "refused")
  | "refresh" =>
    let (s', r) := Res.step fs.atp y.st (.refresh e raw)
    ({ y with st := s' }, if r.isSome then "accepted" else "refused")
  | _ => (fs.mod, "?")

def observed (l : Line) : String :=
  match str l "op" with
  | "reset" => "reset"
  | "issue" => if bool l "jwt" then "issued:exp=" ++ toString (int l "jwtexp") else "issued"
  | "expire" => "expired"
  | "userinfo" => if nat l "o.status" == 200 then "200:" ++ str l "o.sub" else toString (nat l "o.status")
  | "introspect" => if bool l "o.active" then "active" else if nat l "o.status" == 200 then "inactive" else "unauthorized"
  | "revoke" => if nat l "o.status" == 200 then "ok" else "refused"
  | "endsession" => if nat l "o.status" < 400 then "redirect" else "error:" ++ toString (nat l "o.status")
  | "exchange" => if bool l "o.success" then "accepted" else "refused"
  | "refresh" => if bool l "o.success" then "accepted" else "refused"
  | _ => "?"

def step (fs : FullSt) (l : Line) : FullSt × String :=
  let (mon', v) := monStep fs.mon l
  if str l "op" == "reset" then
    -- a request-derived issuer: the reference storage keeps the tenants apart (refstore MultiTenant) - unless it is the flat flavour
    let fs' : FullSt :=
      { mon := mon', mod := { st := { partitioned := str l "issmode" != "static" && !bool l "flat" }, expiryByClaim := bool l "byclaim" },
        -- a provider signing with a non-default algorithm was given `WithSupportedAccessTokenSigningAlgorithms(alg)` (and the same for hints)
        atp := { accessTokenKeySet := parseKeySet l "ks.", accessTokenVerifierOpts := if str l "sigalg" == "RS256" || str l "sigalg" == "" then [] else [str l "sigalg"] },
        clients := Drv.Flow.parseClients l,
        router := if str l "router" == "legacy" then .legacy else .provider,
        termFromReq := bool l "termfromreq", defaultLogoutURI := str l "default" }
    (fs', s!"case={str l "case"} class={cls l} model=reset observed=reset monitor={showMon v} agree=1")
  else
    let obsS := observed l
    -- the request was served somewhere between now0 and now1: the model may side with either instant (expiry edges)
    let (m0, s0) := modelAt fs l (int l "now0")
    let (mod', modelS) :=
      if s0 == obsS || !(has l "now1") then (m0, s0)
      else
        let (m1, s1) := modelAt fs l (int l "now1")
        if s1 == obsS then (m1, s1) else (m0, s0)
    let agree := modelS == obsS
    -- (an agreeing exp claim is shown without its value, so that the outcome classes do not multiply with the clock)
    let (modelS, obsS) := if agree && str l "op" == "issue" && bool l "jwt" then ("issued:jwt", "issued:jwt") else (modelS, obsS)
    ({ fs with mon := mon', mod := mod' },
     s!"case={str l "case"} class={cls l} model={modelS} observed={obsS} monitor={showMon v} agree={if agree then 1 else 0}")

end Drv.C08
