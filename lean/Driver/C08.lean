import Driver.C08Mon
import OidcModel.Model.Resource
open Kv Drv

namespace Drv.C08

structure FullSt where
  mon : _root_.C08.MonState := {}
  mod : Res.St := {}
  clients : List OPClient := []
  router : String := "provider"
  deriving Inhabited

def presentedTok (l : Line) : Res.Presented :=
  match str l "p.kind" with
  | "decrypts" => .decrypts (str l "p.plain")
  | "jwt" => .jwt (str l "p.jti") (str l "p.sub")
  | _ => .nothing

/-- who the caller is authenticated as, by the reference storage's rules (model side) -/
def modelCaller (fs : FullSt) (l : Line) (now : Int) (allowPublic : Bool) : Option String :=
  (_root_.C08.callerOf fs.mon now (presented l) allowPublic).map (·.id)

def step (fs : FullSt) (l : Line) : FullSt × String :=
  let (mon', v) := monStep fs.mon l
  let now := int l "now0"
  let (mod', modelS, obsS) : Res.St × String × String :=
    match str l "op" with
    | "reset" => ({}, "reset", "reset")
    | "issue" => ((Res.step fs.mod (.issue { id := str l "id", client := str l "client", subject := str l "sub", audience := list l "aud" })).1, "issued", "issued")
    | "expire" => ((Res.step fs.mod (.expire (str l "id"))).1, "expired", "expired")
    | "userinfo" =>
      let r := Res.userinfo fs.mod (presentedTok l)
      (fs.mod, (match r with | .claims s => "200:" ++ s | .unauthorized => "401" | .forbidden => "403"),
       (if nat l "o.status" == 200 then "200:" ++ str l "o.sub" else toString (nat l "o.status")))
    | "introspect" =>
      -- the Provider router's introspection authenticates by Basic auth or assertion only (ClientIDFromRequest)
      let caller := if fs.router == "provider" && str l "auth" == "post" then none else modelCaller fs l now false
      let r := Res.introspect fs.mod caller (presentedTok l)
      (fs.mod, (match r with | .active _ => "active" | .inactive => "inactive" | .unauthorized => "unauthorized"),
       (if bool l "o.active" then "active" else if nat l "o.status" == 200 then "inactive" else "unauthorized"))
    | "revoke" =>
      let (s', r) := Res.revoke fs.mod (modelCaller fs l now true) (presentedTok l)
      (s', (match r with | .ok => "ok" | .refused => "refused"), (if nat l "o.status" == 200 then "ok" else "refused"))
    | "endsession" => (if bool l "o.terminated" then Res.terminate fs.mod (str l "sub") (str l "client") else fs.mod, "done", "done")
    | "exchange" =>
      (fs.mod, (if Res.exchangeAccepts fs.mod (presentedTok l) then "accepted" else "refused"), (if bool l "o.success" then "accepted" else "refused"))
    | _ => (fs.mod, "?", "?")
  let agree := modelS == obsS
  ({ fs with mon := mon', mod := mod', router := if str l "op" == "reset" then str l "router" else fs.router },
   s!"case={str l "case"} class={cls l} model={modelS} observed={obsS} monitor={showMon v} agree={if agree then 1 else 0}")

end Drv.C08
