import Driver.Common
import OidcModel.Spec.C16
open Kv Drv

namespace Drv.C16

def parseClient (l : Line) (p : String) : OPClient :=
  { id := str l (p ++ "id"), secret := str l (p ++ "secret"), app := nat l (p ++ "app"), auth := str l (p ++ "auth"),
    grants := list l (p ++ "grants") }

def parseClients (l : Line) : List OPClient :=
  (List.range (nat l "cl.n")).map fun i => parseClient l ("cl." ++ toString i ++ ".")

def presented (l : Line) : _root_.C16.Presented :=
  { kind := str l "kind", clientID := str l "cid", secret := if str l "kind" == "basic" || str l "kind" == "post" then str l "secret" else "" }

def parseFault (l : Line) : _root_.C16.Fault :=
  match str l "fault" with
  | "deadline" | "wrapped" | "ctx" => .timeout
  | "canceled" | "other" => .other
  | _ => .none

def pollObs (l : Line) : _root_.C16.PollObs :=
  match str l "obs" with
  | "ok" => .tokens { subject := str l "o.sub", client := str l "o.client", scopes := list l "o.scopes", audience := list l "o.aud",
                      idToken := if has l "o.idsub" then some (str l "o.idsub", str l "o.azp") else none }
  | "err" => .error (str l "o.err") (nat l "o.status")
  | _ => .panic

def authObs (l : Line) : _root_.C16.AuthObs :=
  match str l "obs" with
  | "ok" => .ok { deviceCode := str l "o.dc", userCode := str l "o.uc", uri := str l "o.uri", uriComplete := str l "o.uric",
                  expiresIn := int l "o.exp", interval := int l "o.int", storedExpires := int l "o.expires" }
  | "err" => .error (str l "o.err") (nat l "o.status")
  | _ => .panic

/-- the observed line as a monitor event at instant `now` -/
def eventOf (l : Line) (now : Int) : Option _root_.C16.Event :=
  match str l "op" with
  | "auth" => some (.auth now (presented l) (list l "scopes") (authObs l))
  | "approve" => some (.approve (str l "dev") (str l "sub"))
  | "deny" => some (.deny (str l "dev"))
  | "expire" => some (.expire (str l "dev") (int l "exp"))
  | "poll" => some (.poll now (presented l) (str l "dev") (parseFault l) (pollObs l))
  | _ => none

def obsString (l : Line) : String :=
  match str l "obs" with
  | "err" => "err:" ++ str l "o.err"
  | "" => "-"
  | x => x

/-- class of a case for the evidence: operation, fault, observed outcome -/
def classOf (l : Line) : String :=
  let f := str l "fault"
  str l "op" ++ (if f == "" || f == "none" then "" else "!" ++ f) ++ ":" ++ obsString l

/-- one observed line: new monitor state and verdict -/
def monStep (m : _root_.C16.MonState) (l : Line) : _root_.C16.MonState × Option String :=
  match str l "op" with
  | "reset" =>
    ({ cfg := { issuer := str l "issuer", formPath := str l "path", lifetime := int l "lifetime", interval := int l "interval",
                charset := (str l "uc.cs").toList, amount := nat l "uc.n", dash := nat l "uc.d", deviceEnabled := bool l "cap" },
       clients := parseClients l, devs := [] }, none)
  | "usercode" =>
    (m, if _root_.C16.userCodeOK (str l "uc.cs").toList (nat l "uc.n") (nat l "uc.d") (str l "o.uc").toList then none else some "user-code-format")
  | "usercodebytes" =>
    -- NewUserCode on a chosen byte stream: a user code must have the configured format; a reader that ran dry is an error answer
    (m, match str l "obs" with
        | "ok" => if _root_.C16.userCodeOK (str l "uc.cs").toList (nat l "uc.n") (nat l "uc.d") (str l "o.uc").toList then none else some "user-code-format"
        | "err" => none
        | _ => some "panic")
  | "devicecode" =>
    (m, if _root_.C16.deviceCodeOK (nat l "n") (str l "o.dc").toList then none else some "device-code-format")
  | _ =>
    match eventOf l (int l "now0"), eventOf l (int l "now1") with
    | some e0, some e1 =>
      let v0 := _root_.C16.judge m e0
      let v1 := _root_.C16.judge m e1
      (_root_.C16.update m e1, if v0.isSome && v1.isSome then v0 else none)
    | _, _ => (m, some "unknown-operation")

def stepMon (m : _root_.C16.MonState) (l : Line) : _root_.C16.MonState × String :=
  let (m', v) := monStep m l
  (m', s!"case={str l "case"} class={classOf l} model=- observed={obsString l} monitor={showMon v} agree=1")

end Drv.C16
