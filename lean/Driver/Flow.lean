import Driver.FlowMon
import OidcModel.Model.Flow
import Driver.C07Wire
import OidcModel.Model.FlowC04X
import OidcModel.Model.FlowC04SC
import OidcModel.Model.FlowC04RO
import Driver.C07Fault
open Kv Drv

namespace Drv.Flow

structure ModSt where
  st : _root_.Flow.St := {}
  router : _root_.Flow.Router := .provider
  pending : String := ""      -- deep3-C04: the model's answer to the second request of a concurrent pair (computed at the first line)
  sc : Option (Claims → Go.R Unit) := none   -- round 4b (C04): the custom subject check of the provider's JWTProfileVerifier (none: SubjectIsIssuer)
  deriving Inhabited

/-- round 4b (C04): the subject check the reset line describes (c04sc.go `c04scPolicy.check`) -/
def scOfLine (l : Line) : Option (Claims → Go.R Unit) :=
  match str l "sc" with
  | "all" => some fun c => if c.sub == "" then .error "sub missing" else .ok ()
  | "table" =>
    let tb := list l "sc.table"
    some fun c => if c.sub == c.iss || tb.contains (c.iss ++ ">" ++ c.sub) then .ok () else .error "delegation not allowed for this pair"
  | _ => none

structure FullSt where
  mon : MonSt := {}
  mod : ModSt := {}
  deriving Inhabited

def accessReq (l : Line) : AccessTokenRequest :=
  { Code := str l "code", RedirectURI := str l "redirect", ClientID := str l "cid", ClientSecret := str l "secret",
    CodeVerifier := str l "verifier",
    ClientAssertionType := if str l "auth" == "assertion" then Const.ClientAssertionTypeJWTAssertion else "",
    ClientAssertion := if str l "auth" == "assertion" then parseToken l else default }

def refreshReq (l : Line) : RefreshTokenRequest :=
  { RefreshToken := str l "rt", Scopes := list l "scopes", ClientID := str l "cid", ClientSecret := str l "secret",
    ClientAssertionType := if str l "auth" == "assertion" then Const.ClientAssertionTypeJWTAssertion else "",
    ClientAssertion := if str l "auth" == "assertion" then parseToken l else default }

/-- OAuth error code of a sentinel name -/
def oauthCode (e : String) : String := _root_.Flow.oauthCode e

def showOut (o : _root_.Flow.Out) : String :=
  match o with
  | .loginPage id => "login:" ++ id
  | .done => "done"
  | .code c => "code:" ++ c
  | .issued (.code a c _) nr => s!"ok:{a.subject}:{c.id}:{a.scopes}:{a.nonce}:{nr.getD "-"}".replace " " ""
  | .issued (.refresh r c _) nr => s!"ok:{r.subject}:{c.id}:{r.scopes}::{nr.getD "-"}".replace " " ""
  | .error e => "err:" ++ oauthCode e

def showObs (l : Line) : String :=
  match str l "op", str l "obs" with
  | "authorize", "login" => "login:" ++ str l "o.id" ++ (if str l "o.presub" == "" then "" else ":" ++ str l "o.presub")
  | "authorize", "err" => "err:" ++ str l "o.error"
  | "callback", "code" => "code:" ++ str l "o.code"
  | "callback", "err" => "err:" ++ (if has l "o.error" then str l "o.error" else "invalid_request")
  | "exchange", "ok" => s!"ok:{str l "o.sub"}:{str l "o.client"}:{list l "o.scopes"}:{str l "o.nonce"}:{if has l "o.rt" then str l "o.rt" else "-"}".replace " " ""
  | "refresh", "ok" => s!"ok:{str l "o.rtsub"}:{str l "o.rtclient"}:{list l "o.rtscopes"}::{if has l "o.rt" then str l "o.rt" else "-"}".replace " " ""
  | _, "err" => "err:" ++ str l "o.err"
  | _, x => x

/-- deep3-C04: the second request of a concurrent pair (keys `c2.*` of the pair's first line; assertion clients do not race) -/
def accessReq2 (l : Line) : AccessTokenRequest :=
  { Code := str l "c2.code", RedirectURI := str l "c2.redirect", ClientID := str l "c2.cid", ClientSecret := str l "c2.secret",
    CodeVerifier := str l "c2.verifier" }

/-- deep3-C04: the storage call at which the harness injected a fault (`fault.at`) -/
def faultOfLine (l : Line) : FlowX.FaultAt :=
  let at' := str l "fault.at"
  if at' == "createTokens" then .createTokens
  else if at'.startsWith "in:" then .issuing (String.ofList (at'.toList.drop 3))
  else .validation at'

/-- deep5-C07: the audience the reference storage grants (`g.aud` on an exchange line: configuration of the storage, an input).
    `Flow.mintTokens` records the client itself as the audience (what the storage did before it could be configured); the
    refresh-token records the step CREATED (those `s0` did not hold) get the configured audience instead. -/
def grantAudience (l : Line) (s0 s : _root_.Flow.St) : _root_.Flow.St :=
  -- (only a step that removed no record: a rotation keeps the audience of the record it rotates)
  if has l "g.aud" && s0.store.refresh.all (fun r0 => s.store.refresh.any (·.token == r0.token)) then
    let upd : List RefreshReq := s.store.refresh.map fun r =>
      if s0.store.refresh.any (·.token == r.token) then r else { r with audience := list l "g.aud" }
    s.setStore { s.store with refresh := upd }
  else s

def modelStep (m : ModSt) (l : Line) (now : Int) : ModSt × String :=
  match str l "op" with
  | "reset" =>
    let rt := if str l "router" == "legacy" then _root_.Flow.Router.legacy else .provider
    let p : Provider := { store := { clients := parseClients l, is_ClientCredentialsStorage := true }, issuer := str l "issuer",
                          postSupported := bool l "post", pkjwtSupported := bool l "pkjwt", refreshSupported := bool l "refresh",
                          jwtMaxAgeIAT := 3600 * Go.second, jwtOffset := Go.second }
    ({ st := { p := p, hintKeys := if has l "ks.n" then parseKeySet l "ks." else {} }, router := rt, sc := scOfLine l }, "reset")
  | "authorize" =>
    let ch : Option CodeChallenge := if has l "chal.m" then some { Challenge := str l "chal.c", Method := str l "chal.m" } else none
    let a : AuthReq := { clientID := str l "client", redirectURI := str l "redirect", scopes := list l "scopes",
                         nonce := str l "nonce", state := str l "state", challenge := ch }
    let hint : FlowHint := if has l "hint" then { raw := "hint", token := parseToken l } else {}
    -- round 4c (C04): a request with a signed request object: what is stored is what the REGENERATED ParseRequestObject /
    -- CopyRequestObjectToAuthRequest make of the query and the object as they travelled (Model/FlowC04RO.lean)
    let (s, o) := if has l "ro" then
        let obj := FlowRO.objectOf m.st.p.issuer a.clientID true (str l "ro.cc") (str l "ro.ccm")
        FlowRO.stepAuthorize now m.st (if str l "ro.sig" == "ok" then C19.honGenuine obj else FlowRO.forged obj) a (str l "q.cc") (str l "q.ccm") "request-object" hint
      else _root_.Flow.step now m.st (.authorize a hint)
    -- the subject the pending request carries (from a valid or expired id_token_hint) is part of what is compared
    let pre := match o with
      | .loginPage _ => (s.store.authReqs.getLast?.map (·.subject)).getD ""
      | _ => ""
    ({ m with st := s }, showOut o ++ (if pre == "" then "" else ":" ++ pre))
  | "login" =>
    let (s, _) := _root_.Flow.step now m.st (.login (str l "id") (str l "sub") (int l "authtime"))
    ({ m with st := s }, "done")
  | "callback" =>
    let (s, o) := _root_.Flow.step now m.st (.callback (str l "id") (if str l "obs" == "code" then str l "o.code" else "c?"))
    ({ m with st := s }, showOut o)
  | "reregister" =>
    -- deep3-C07: a registration is replaced
    ({ m with st := _root_.Flow.reRegister m.st (parseClient l "cl.0.") }, "done")
  | "exchange" =>
    if has l "w.body" then let (s, o) := Wire.modelToken now m.st m.router l; ({ m with st := grantAudience l m.st s }, o) else   -- deep3-C07: the request as it travelled
    -- deep3-C04: a fault at the k-th storage call / a concurrent pair (Model/FlowC04X.lean); every other line goes the old way
    if has l "fault.at" then
      let (s, o) := FlowX.stepFault now m.st m.router (accessReq l) (str l "auth" == "assertion") (faultOfLine l)
      -- a failing read of the validation phase: the model fixes THAT the request is refused; the error code is compared for
      -- the calls the property theorems name, and by class for the others
      ({ m with st := s }, showOut o)
    else if bool l "conc.second" then ({ m with pending := "" }, m.pending)
    else if has l "conc" then
      let sched := (list l "conc.sched").map (· == "A")
      let (s, oA, oB, order) := FlowX.stepConc now m.st m.router (bool l "conc.strict") (accessReq l) false (accessReq2 l) false sched
      -- this line is the request that finished first in reality: the model must agree on who finishes first
      ({ m with st := s, pending := showOut oB }, showOut oA ++ (if order.head? == some true then "" else "!order"))
    else if m.sc.isSome && !bool l "fault.delete" then
      -- round 4b: the provider's verifier carries a custom subject check: the regenerated GenSC.* decide (Model/FlowC04SC.lean)
      let (s, o) := FlowSC.stepExchange now m.st m.sc m.router (accessReq l) (str l "auth" == "assertion")
      ({ m with st := s }, showOut o)
    else
    let op := if bool l "fault.delete" then _root_.Flow.Op.exchangeDeleteFails m.router (accessReq l) (str l "auth" == "assertion")
              else .exchange m.router (accessReq l) (str l "auth" == "assertion")
    let (s, o) := _root_.Flow.step now m.st op
    ({ m with st := s }, showOut o)
  | "refresh" =>
    -- deep4-C07: a storage fault at the k-th call of the request / a concurrent pair (Model/C07Fault.lean)
    if has l "w.body" && has l "fault.at" then let (s, o) := Wire.modelFault now m.st m.router l; ({ m with st := s }, o) else
    if has l "w.body" && bool l "conc.second" then ({ m with pending := "" }, m.pending) else
    if has l "w.body" && has l "conc" then let (s, oA, oB) := Wire.modelPair now m.st m.router l; ({ m with st := s, pending := oB }, oA) else
    if has l "w.body" then let (s, o) := Wire.modelToken now m.st m.router l; ({ m with st := grantAudience l m.st s }, o) else   -- deep3-C07
    let (s, o) := _root_.Flow.step now m.st (.refresh m.router (refreshReq l) (str l "auth" == "assertion"))
    ({ m with st := s }, showOut o)
  | _ => (m, "?")

def step (prop : String) (fs : FullSt) (l : Line) : FullSt × String :=
  let (mon', v04, v07) := monStep fs.mon l
  let v := if prop == "C07" then v07 else v04
  let (m0, o0) := modelStep fs.mod l (int l "now0")
  let (_, o1) := modelStep fs.mod l (int l "now1")
  let stable := o0 == o1
  let obsS := if has l "w.body" && has l "o.http" then Wire.showObsF l else if has l "w.body" then Wire.showObsX l else showObs l
  let agree := !stable || str l "op" == "reset" || str l "op" == "login" || str l "op" == "reregister" || o0 == obsS
  ({ mon := mon', mod := m0 },
   s!"case={str l "case"} class={str l "op"}:{obsString l} model={if stable then o0 else "unstable"} observed={obsS} monitor={showMon v} agree={if agree then 1 else 0}")

end Drv.Flow
