import Driver.FlowMon
import OidcModel.Model.Flow
import Driver.C07Wire
open Kv Drv

namespace Drv.Flow

structure ModSt where
  st : _root_.Flow.St := {}
  router : _root_.Flow.Router := .provider
  deriving Inhabited

structure FullSt where
  mon : MonSt := {}
  mod : ModSt := {}
  deriving Inhabited

def accessReq (l : Line) : AccessTokenRequest :=
  { Code := str l "code", RedirectURI := str l "redirect", ClientID := str l "cid", ClientSecret := str l "secret",
    CodeVerifier := str l "verifier",
    ClientAssertionType := if str l "auth" == "assertion" then Const.ClientAssertionTypeJWTAssertion else "",
    ClientAssertion := if str l "auth" == "assertion" then parseToken l else default }

def refreshReq (l : Line) : RefreshTokenRequest :=
  { RefreshToken := str l "rt", Scopes := list l "scopes", ClientID := str l "cid", ClientSecret := str l "secret",
    ClientAssertionType := if str l "auth" == "assertion" then Const.ClientAssertionTypeJWTAssertion else "",
    ClientAssertion := if str l "auth" == "assertion" then parseToken l else default }

/-- OAuth error code of a sentinel name -/
def oauthCode (e : String) : String := _root_.Flow.oauthCode e

def showOut (o : _root_.Flow.Out) : String :=
  match o with
  | .loginPage id => "login:" ++ id
  | .done => "done"
  | .code c => "code:" ++ c
  | .issued (.code a c _) nr => s!"ok:{a.subject}:{c.id}:{a.scopes}:{a.nonce}:{nr.getD "-"}".replace " " ""
  | .issued (.refresh r c _) nr => s!"ok:{r.subject}:{c.id}:{r.scopes}::{nr.getD "-"}".replace " " ""
  | .error e => "err:" ++ oauthCode e

def showObs (l : Line) : String :=
  match str l "op", str l "obs" with
  | "authorize", "login" => "login:" ++ str l "o.id" ++ (if str l "o.presub" == "" then "" else ":" ++ str l "o.presub")
  | "authorize", "err" => "err:" ++ str l "o.error"
  | "callback", "code" => "code:" ++ str l "o.code"
  | "callback", "err" => "err:" ++ (if has l "o.error" then str l "o.error" else "invalid_request")
  | "exchange", "ok" => s!"ok:{str l "o.sub"}:{str l "o.client"}:{list l "o.scopes"}:{str l "o.nonce"}:{if has l "o.rt" then str l "o.rt" else "-"}".replace " " ""
  | "refresh", "ok" => s!"ok:{str l "o.rtsub"}:{str l "o.rtclient"}:{list l "o.rtscopes"}::{if has l "o.rt" then str l "o.rt" else "-"}".replace " " ""
  | _, "err" => "err:" ++ str l "o.err"
  | _, x => x

def modelStep (m : ModSt) (l : Line) (now : Int) : ModSt × String :=
  match str l "op" with
  | "reset" =>
    let rt := if str l "router" == "legacy" then _root_.Flow.Router.legacy else .provider
    let p : Provider := { store := { clients := parseClients l, is_ClientCredentialsStorage := true }, issuer := str l "issuer",
                          postSupported := bool l "post", pkjwtSupported := bool l "pkjwt", refreshSupported := bool l "refresh",
                          jwtMaxAgeIAT := 3600 * Go.second, jwtOffset := Go.second }
    ({ st := { p := p, hintKeys := if has l "ks.n" then parseKeySet l "ks." else {} }, router := rt }, "reset")
  | "authorize" =>
    let ch : Option CodeChallenge := if has l "chal.m" then some { Challenge := str l "chal.c", Method := str l "chal.m" } else none
    let a : AuthReq := { clientID := str l "client", redirectURI := str l "redirect", scopes := list l "scopes",
                         nonce := str l "nonce", state := str l "state", challenge := ch }
    let hint : FlowHint := if has l "hint" then { raw := "hint", token := parseToken l } else {}
    let (s, o) := _root_.Flow.step now m.st (.authorize a hint)
    -- the subject the pending request carries (from a valid or expired id_token_hint) is part of what is compared
    let pre := match o with
      | .loginPage _ => (s.store.authReqs.getLast?.map (·.subject)).getD ""
      | _ => ""
    ({ m with st := s }, showOut o ++ (if pre == "" then "" else ":" ++ pre))
  | "login" =>
    let (s, _) := _root_.Flow.step now m.st (.login (str l "id") (str l "sub") (int l "authtime"))
    ({ m with st := s }, "done")
  | "callback" =>
    let (s, o) := _root_.Flow.step now m.st (.callback (str l "id") (if str l "obs" == "code" then str l "o.code" else "c?"))
    ({ m with st := s }, showOut o)
  | "reregister" =>
    -- deep3-C07: a registration is replaced
    ({ m with st := _root_.Flow.reRegister m.st (parseClient l "cl.0.") }, "done")
  | "exchange" =>
    if has l "w.body" then let (s, o) := Wire.modelToken now m.st m.router l; ({ m with st := s }, o) else   -- deep3-C07: the request as it travelled
    let op := if bool l "fault.delete" then _root_.Flow.Op.exchangeDeleteFails m.router (accessReq l) (str l "auth" == "assertion")
              else .exchange m.router (accessReq l) (str l "auth" == "assertion")
    let (s, o) := _root_.Flow.step now m.st op
    ({ m with st := s }, showOut o)
  | "refresh" =>
    if has l "w.body" then let (s, o) := Wire.modelToken now m.st m.router l; ({ m with st := s }, o) else   -- deep3-C07
    let (s, o) := _root_.Flow.step now m.st (.refresh m.router (refreshReq l) (str l "auth" == "assertion"))
    ({ m with st := s }, showOut o)
  | _ => (m, "?")

def step (prop : String) (fs : FullSt) (l : Line) : FullSt × String :=
  let (mon', v04, v07) := monStep fs.mon l
  let v := if prop == "C07" then v07 else v04
  let (m0, o0) := modelStep fs.mod l (int l "now0")
  let (_, o1) := modelStep fs.mod l (int l "now1")
  let stable := o0 == o1
  let obsS := if has l "w.body" then Wire.showObsX l else showObs l
  let agree := !stable || str l "op" == "reset" || str l "op" == "login" || str l "op" == "reregister" || o0 == obsS
  ({ mon := mon', mod := m0 },
   s!"case={str l "case"} class={str l "op"}:{obsString l} model={if stable then o0 else "unstable"} observed={obsS} monitor={showMon v} agree={if agree then 1 else 0}")

end Drv.Flow
