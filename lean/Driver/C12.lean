import Driver.C12Mon
import OidcModel.Generated.Codec
import OidcModel.Generated.CodecWrap
open Kv Drv Codec

/-
  C12, full driver: the answers are recomputed with the REGENERATED codec (Generated/Codec.lean, namespace GenCodec),
  the oracle arguments are filled with what the real libraries answered on this line.
-/
namespace Drv.C12

def jsonStringOf (doc : Cdc.JVal) (old : String) : Go.R String :=
  match doc with
  | .str s => .ok s
  | .null => .ok old
  | _ => .error "json.UnmarshalTypeError"

def oraclesOf (l : Line) : Cdc.Oracles :=
  let doc := parseJ l
  let rows := tagRows l
  let E := tableFn (parseTable l)
  { jsonAny := fun _ => .ok doc,
    jsonString := fun _ old => jsonStringOf doc old,
    jsonTag := fun _ _ => ({ s := str l "jt.s", root := bool l "jt.root" }, if str l "jt.err" == "" then .ok () else .error (str l "jt.err")),
    languageParse := fun s => match rows.find? (·.s == s) with
      | some r => (r.ptag, if r.perr == "" then none else some r.perr)
      | none => (Cdc.Tag.zero, some "not-on-line"),
    timeParse := fun _ => if has l "tp" then .ok (int l "tp") else .error "time",
    newCipher := fun _ => if has l "keyok" && !bool l "keyok" then .error "aes.KeySizeError" else .ok E,
    randRead := fun _ => .ok ((bytesOf l "o.raw").take 16) }

def outR {α} : Go.R α → Out α
  | .ok v => .val v
  | .error _ => .err

def showOutR {α} (r : Go.R α) : String := showOut (outR r)

/-- model of decoding a claims document whose only unusual member is `locale`: encoding/json leaves a nil pointer for an
    absent / null member and calls `Locale.UnmarshalJSON` on a fresh value otherwise; `unmarshalJSONMulti` reports the
    typed destination's error -/
def docDecode (l : Line) (o : Cdc.Oracles) : Go.R (Option Cdc.Locale) :=
  let member : Option Cdc.JVal := if bool l "has" then some (parseJ l) else none
  let typed : Go.R (Option Cdc.Locale) :=
    match member with
    | none => .ok none
    | some .null => .ok none
    | some _ => match GenCodec.LocaleUnmarshalJSON 0 o {} (str l "lit") with
      | .ok loc => .ok (some loc)
      | .error e => .error e
  let o2 : Cdc.Oracles := { o with unmarshalInto := fun _ d => if d == 0 then (match typed with | .ok _ => .ok () | .error e => .error e) else .ok () }
  match GenCodec.unmarshalJSONMulti 0 o2 "" [0, 1] with
  | .error e => .error e
  | .ok _ => typed

/-- … and of encoding it again: the registered members (the locale through `Locale.MarshalJSON`) merged over the custom map,
    which holds every member of the document -/
def docReencode (l : Line) (o : Cdc.Oracles) (loc : Option Cdc.Locale) : Go.R Obj :=
  let doc := obj l "doc"
  let regnames := list l "regnames"
  let others := doc.filter fun kv => regnames.contains kv.1 && kv.1 != "locale"
  match loc with
  | none =>
    (match (GenCodec.mergeAndMarshalClaims 0 o { enc := .ok others } doc).2 with
    | .ok [m] => .ok m
    | .ok _ => .error "not-one-document"
    | .error e => .error e)
  | some _ =>
    match GenCodec.LocaleMarshalJSON 0 o loc with
    | .error e => .error e
    | .ok txt =>
      match (GenCodec.mergeAndMarshalClaims 0 o { enc := .ok (others ++ [("locale", txt)]) } doc).2 with
      | .ok [m] => .ok m
      | .ok _ => .error "not-one-document"
      | .error e => .error e


/-! ### the JSON wrapper methods (Generated/CodecWrap.lean, namespace GenCodecW): kinds `wenc` / `wdec` -/

def wMarshalOf (ty : String) : Option (Int → Cdc.Oracles → Cdw.ClaimsVal → Go.R (List Obj)) :=
  match ty with
  | "AccessTokenClaims" => some GenCodecW.AccessTokenClaimsMarshalJSON
  | "IDTokenClaims" => some GenCodecW.IDTokenClaimsMarshalJSON
  | "ActorClaims" => some GenCodecW.ActorClaimsMarshalJSON
  | "JWTProfileAssertionClaims" => some GenCodecW.JWTProfileAssertionClaimsMarshalJSON
  | "LogoutTokenClaims" => some GenCodecW.LogoutTokenClaimsMarshalJSON
  | "UserInfo" => some GenCodecW.UserInfoMarshalJSON
  | _ => none

def wUnmarshalOf (ty : String) : Option (Int → Cdc.Oracles → Cdw.ClaimsVal → String → Go.R Unit) :=
  match ty with
  | "AccessTokenClaims" => some GenCodecW.AccessTokenClaimsUnmarshalJSON
  | "IDTokenClaims" => some GenCodecW.IDTokenClaimsUnmarshalJSON
  | "ActorClaims" => some GenCodecW.ActorClaimsUnmarshalJSON
  | "JWTProfileAssertionClaims" => some GenCodecW.JWTProfileAssertionClaimsUnmarshalJSON
  | "LogoutTokenClaims" => some GenCodecW.LogoutTokenClaimsUnmarshalJSON
  | "UserInfo" => some GenCodecW.UserInfoUnmarshalJSON
  | _ => none

def wOracles (l : Line) : Cdc.Oracles :=
  { mapEncodable := fun _ => true,
    marshalString := fun s => if s == str l "user" then .ok (str l "user.j") else if s == str l "pref" then .ok (str l "pref.j") else .error "not-on-line",
    parseObj := fun _ => .ok (obj l "doc"),
    -- encoding/json's reflection into the typed struct: the answer observed on this line
    decodeAlias := fun _ _ => if str l "obs" == "ok" then .ok { enc := .ok (obj l "o.reg2") } else .error "json" }

def wEncModel (l : Line) : String × Bool :=
  let o := wOracles l
  let reg := obj l "reg"
  let custom := obj l "custom"
  let ok := str l "obs" == "ok"
  match str l "type" with
  | "IntrospectionResponse" =>
    let rest := reg.filter fun kv => kv.1 != "username" && kv.1 != "preferred_username"
    let i : Cdw.IntroVal := { Username := str l "user", PreferredUsername := str l "pref", rest := .ok rest, Claims := custom }
    let (i', res) := GenCodecW.IntrospectionResponseMarshalJSON 0 o i
    (match res with
    | .ok [m] => ("obj", ok && C12.sameMap m (obj l "o.obj") && i'.Username == str l "o.user" && C12.sameMap i'.Claims (obj l "o.custom2"))
    | _ => ("err", !ok))
  | "JWTTokenRequest" =>
    let j : Cdw.JwtReq := { alias := { enc := .ok reg }, priv := custom }
    let (j', res) := GenCodecW.JWTTokenRequestMarshalJSON 0 o j
    (match res with
    | .ok m => ("obj", ok && C12.sameMap m (obj l "o.obj") && C12.sameMap j'.priv (obj l "o.custom2"))
    | .error _ => ("err", !ok))
  | ty =>
    match wMarshalOf ty with
    | none => ("?" ++ ty, false)
    | some f =>
      match f 0 o { alias := { enc := .ok reg }, Claims := custom } with
      | .ok [m] => ("obj", ok && C12.sameMap m (obj l "o.obj") && C12.sameMap custom (obj l "o.custom2"))
      | _ => ("err", !ok)

def wDecModel (l : Line) : String × Bool :=
  let o := wOracles l
  let ok := str l "obs" == "ok"
  let ty := str l "type"
  -- the registered names the harness read off the struct by reflection are the regenerated table
  let names := list l "names"
  let namesAgree := names.length == (GenCodecW.regNames ty).length && names.all (GenCodecW.regNames ty).contains && (GenCodecW.regNames ty).all names.contains
  let expectCustom := Cdw.storeOver (obj l "doc") (obj l "custom0")
  match ty with
  | "JWTTokenRequest" =>
    let j : Cdw.JwtReq := { alias := { enc := .ok (obj l "reg0") }, priv := obj l "custom0" }
    (match GenCodecW.JWTTokenRequestUnmarshalJSON 0 o j "" with
    | .ok j' => ("ok", ok && namesAgree && C12.sameMap j'.priv (obj l "o.custom2"))
    | .error _ => ("err", !ok && namesAgree))
  | _ =>
    let f? := if ty == "IntrospectionResponse" then
        some (fun now o (v : Cdw.ClaimsVal) data => GenCodecW.IntrospectionResponseUnmarshalJSON now o { Claims := v.Claims } data)
      else wUnmarshalOf ty
    match f? with
    | none => ("?" ++ ty, false)
    | some f =>
      let v0 : Cdw.ClaimsVal := { alias := { enc := .ok (obj l "reg0") }, Claims := obj l "custom0" }
      -- the status oracle of the destinations: what storing into them does on this line
      let st (failing : Option Nat) : Cdc.Oracles := { o with unmarshalInto := fun _ d => if some d == failing then .error "json" else .ok () }
      let visitsBoth := (f 0 (st (some 0)) v0 "").isOk == false && (f 0 (st (some 1)) v0 "").isOk == false && (f 0 (st (some 2)) v0 "").isOk
      let status := f 0 (st (if ok then none else some 0)) v0 ""
      let (v2, _) := Cdw.ClaimsVal.storeAll o "" v0 [0, 1]
      if ok then ("ok", status.isOk && visitsBoth && namesAgree && C12.sameMap v2.Claims (obj l "o.custom2") && C12.sameMap expectCustom (obj l "o.custom2"))
      else ("err", !status.isOk && visitsBoth && namesAgree)

def modelFull (l : Line) : String × Bool :=
  let o := oraclesOf l
  match str l "kind" with
  | "locale" =>
    let m := GenCodec.LocaleUnmarshalJSON 0 o {} (str l "lit")
    (showOutR m, outR (m.map (·.tag)) == outOfLine l (obsTag l))
  | "locales" =>
    let m := if str l "type" == "Locales:text" then GenCodec.LocalesUnmarshalText 0 o [] (str l "text") else GenCodec.LocalesUnmarshalJSON 0 o [] (str l "text")
    (showOutR m, outR m == outOfLine l (obsTags l))
  | "docrt" =>
    match docDecode l o with
    | .error _ => ("err", str l "obs" == "err")
    | .ok loc =>
      let dec : Option Cdc.Tag := if has l "o.s" then some (obsTag l) else none
      match docReencode l o loc with
      | .error _ => ("val:reencode-err", false)
      | .ok m => ("val", str l "obs" == "val" && loc.map (·.tag) == dec && C12.sameMap m (obj l "o.obj"))
  | "jaud" =>
    let m := GenCodec.AudienceUnmarshalJSON 0 o [] (str l "lit")
    (showOutR m, outR m == outOfLine l (list l "o.v"))
  | "jtime" =>
    let m := GenCodec.TimeUnmarshalJSON 0 o 0 (str l "lit")
    (showOutR m, outR m == outOfLine l (int l "o.v"))
  | "jbool" =>
    let m := GenCodec.BoolUnmarshalJSON 0 o false (str l "lit")
    (showOutR m, outR m == outOfLine l (bool l "o.v"))
  | "jspace" =>
    let m := GenCodec.SpaceDelimitedArrayUnmarshalJSON 0 o [] (str l "lit")
    (showOutR m, outR m == outOfLine l (list l "o.v"))
  | "jdisplay" =>
    let m := GenCodec.DisplayUnmarshalText 0 "" (str l "dtext")
    (showOutR m, outR m == outOfLine l (str l "o.v"))
  | "unseal" =>
    let m := GenCodec.DecryptAES 0 o (str l "enc").toList []
    (showOutR m, outR m == outOfLine l (bytesOf l "o.plain"))
  | "wenc" => wEncModel l
  | "wdec" => wDecModel l
  | "marshal" =>
    match (GenCodec.mergeAndMarshalClaims 0 o { enc := .ok (obj l "reg") } (obj l "custom")).2 with
    | .ok [m] => ("obj", (str l "obs" == "ok" || str l "obs" == "decode-refused") && C12.sameMap m (obj l "o.obj"))
    | _ => ("err", str l "obs" == "err")
  | "claimsdoc" =>
    -- the typed destination refuses the member in an unsupported form; unmarshalJSONMulti must hand that error on
    let o2 : Cdc.Oracles := { o with unmarshalInto := fun _ d => if d == 0 then .error "json" else .ok () }
    let m := GenCodec.unmarshalJSONMulti 0 o2 "" [0, 1]
    (showOutR m, (str l "obs" == "err") == (outR m == .err))
  | "seal" =>
    if str l "obs" != "ok" then ("err", false) else
    let raw := bytesOf l "o.raw"
    let plain := bytesOf l "plain"
    let okEnc := match GenCodec.EncryptBytesAES 0 o plain [] with | .ok c => c == raw | .error _ => false
    let okStr := match GenCodec.EncryptAES 0 o plain [] with | .ok s => String.ofList s == str l "o.enc" | .error _ => false
    let okDec := match GenCodec.DecryptAES 0 o (str l "o.enc").toList [] with | .ok p => p == plain | .error _ => false
    ("sealed", okEnc && okStr && okDec)
  | _ => modelLine l

def stepFull (l : Line) : String :=
  let (m, agree) := modelFull l
  s!"case={str l "case"} class={str l "kind"}:{str l "type"}:{str l "obs"} model={m} observed={str l "obs"} monitor={showMon (monitorLine l)} agree={if agree then 1 else 0}"

end Drv.C12
