import Driver.Common
import OidcModel.Spec.C10
open Kv Drv

namespace Drv.C10

def step (l : Line) : String :=
  let o : _root_.C10.Obs :=
    { flow := str l "flow", status := nat l "o.status", panicked := bool l "o.panic", locationError := bool l "o.locerr",
      locationRegistered := bool l "o.locreg", hasRedirect := bool l "o.redirect", hasCode := bool l "o.code", hasToken := bool l "o.token",
      hasClaims := bool l "o.claims", active := bool l "o.active" }
  let v := _root_.C10.judge (bool l "hit") o
  -- model: with the fault inside the request's call sequence the handler answers with an error (c10_fail_closed)
  let model := if bool l "hit" then "error" else "no-fault"
  let observed := if !bool l "hit" then "no-fault" else if v.isNone then "error" else "not-closed"
  s!"case={str l "case"} class={str l "flow"}:{str l "router"}:{str l "cred"}:{if bool l "hit" then "fault@" ++ (str l "failed").takeWhile (· != '(') else "beyond"}:{nat l "o.status"} model={model} observed={observed} monitor={showMon v} agree={if model == observed then 1 else 0}"

end Drv.C10
