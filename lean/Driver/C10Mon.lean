import Driver.Common
import OidcModel.Spec.C10
open Kv Drv

namespace Drv.C10

def step (l : Line) : String :=
  let o : _root_.C10.Obs :=
    { flow := str l "flow", status := nat l "o.status", panicked := bool l "o.panic", locationError := bool l "o.locerr",
      locationRegistered := bool l "o.locreg", hasRedirect := bool l "o.redirect", hasCode := bool l "o.code", hasToken := bool l "o.token",
      hasClaims := bool l "o.claims", active := bool l "o.active" }
  -- does the fault schedule amount to "a storage call failed" (Spec: documented protocol answers are not failures)
  let fmethod := ((str l "failed").takeWhile (· != '(')).toString
  let counts := _root_.C10.faultCounts fmethod (str l "kind") (nat l "nfail") (nat l "mok") (str l "sched" == "all")
  let v := _root_.C10.judge counts o
  -- model: with the fault inside the request's call sequence the handler answers with an error (c10_fail_closed_handlers)
  let model := if counts then "error" else if bool l "hit" then "protocol-answer" else "no-fault"
  let observed := if !counts then model else if v.isNone then "error" else "not-closed"
  s!"case={str l "case"} class={str l "flow"}:{str l "router"}:{str l "cred"}:{str l "sched"}:{str l "kind"}:{if bool l "hit" then "fault@" ++ fmethod else "beyond"}:{nat l "o.status"} model={model} observed={observed} monitor={showMon v} agree={if model == observed then 1 else 0}"

end Drv.C10
