import Driver.C16Mon
import OidcModel.Model.DeviceFlow
import OidcModel.Model.DeviceRand
open Kv Drv

namespace Drv.C16

structure FullSt where
  mon : _root_.C16.MonState := {}
  mod : DevFlow.St := {}
  deriving Inhabited

def hexBytes : List Char → List UInt8
  | a :: b :: rest =>
    match Kv.hexVal a, Kv.hexVal b with
    | some x, some y => UInt8.ofNat (16 * x + y) :: hexBytes rest
    | _, _ => []
  | _ => []

def natList (l : Line) (k : String) : List Nat := (list l k).map fun s => s.toNat?.getD 1000000

def httpReq (l : Line) : DevHttpRequest :=
  let form : DevFormData := { ClientID := (if str l "kind" == "post" || str l "kind" == "id-only" then str l "cid" else ""),
                              Scopes := list l "scopes", DeviceCode := str l "dev" }
  { authKind := str l "kind", clientID := str l "cid", clientSecret := str l "secret", Form := form, PostForm := form }

def modelFault (l : Line) : Option String :=
  match str l "fault" with
  | "deadline" | "wrapped" | "ctx" => some Const.DeadlineExceeded
  | "canceled" => some Const.Canceled
  | "other" => some "error:injected storage failure"
  | _ => none

open DevFlow (oauthCode)

def showOut (o : DevFlow.Out) : String :=
  match o with
  | .authOk r => s!"ok:{esc r.DeviceCode}:{esc r.UserCode}:{esc r.VerificationURI}:{esc r.VerificationURIComplete}:{r.ExpiresIn}:{r.Interval}"
  | .done => "done"
  | .issued i =>
    let idsub := i.idTokenSubject.getD "-"
    s!"ok:{esc i.state.Subject}:{esc i.state.ClientID}:{escList i.state.Scopes}:{escList [i.state.ClientID]}:{if DevFlow.wantsRefresh i then 1 else 0}:{esc idsub}"
  | .error "panic" => "panic"
  | .error e => "err:" ++ oauthCode e

def showObs (l : Line) : String :=
  match str l "op", str l "obs" with
  | "auth", "ok" => s!"ok:{esc (str l "o.dc")}:{esc (str l "o.uc")}:{esc (str l "o.uri")}:{esc (str l "o.uric")}:{int l "o.exp"}:{int l "o.int"}"
  | "poll", "ok" =>
    let rt := if bool l "o.rt" then "1" else "0"
    let idsub := if has l "o.idsub" then str l "o.idsub" else "-"
    "ok:" ++ esc (str l "o.sub") ++ ":" ++ esc (str l "o.client") ++ ":" ++ escList (list l "o.scopes") ++ ":" ++ escList (list l "o.aud") ++ ":" ++ rt ++ ":" ++ esc idsub
  | _, "err" => "err:" ++ str l "o.err"
  | _, "" => "done"
  | _, x => x

def modelStep (s : DevFlow.St) (l : Line) (now : Int) : DevFlow.St × String :=
  match str l "op" with
  | "reset" =>
    let rt := if str l "router" == "legacy" then Flow.Router.legacy else .provider
    let p : Provider := { store := { clients := parseClients l, is_ClientCredentialsStorage := true }, issuer := str l "issuer",
                          postSupported := bool l "post", pkjwtSupported := bool l "pkjwt", refreshSupported := true }
    let uc : UserCodeConfig := { CharSet := (str l "uc.cs").toList, CharAmount := nat l "uc.n", DashInterval := nat l "uc.d" }
    let cfg : DeviceAuthorizationConfig := { Lifetime := int l "lifetime" * Go.second, PollInterval := int l "interval" * Go.second, UserFormPath := str l "path", UserCode := uc }
    ({ prov := { p := p, deviceCap := bool l "cap", cfg := cfg, userinfoSubject := bool l "uisub" }, router := rt }, "reset")
  | "auth" =>
    let (s', o) := DevFlow.step s (.auth now (httpReq l) { bytes := hexBytes (str l "rnd.bytes").toList, indices := natList l "rnd.idx" })
    (s', showOut o)
  | "approve" => ((DevFlow.step s (.approve (str l "dev") (str l "sub") (int l "authtime"))).1, "done")
  | "deny" => ((DevFlow.step s (.deny (str l "dev"))).1, "done")
  | "expire" => ((DevFlow.step s (.expire (str l "dev") (int l "exp"))).1, "done")
  | "poll" =>
    let (s', o) := DevFlow.step s (.poll now (httpReq l) (modelFault l))
    (s', showOut o)
  | _ => (s, "?")

/-- the pure generators, called directly by the harness -/
def pureStep (l : Line) : Option (String × String) :=
  match str l "op" with
  | "usercode" =>
    let m := match Hand.NewUserCode (str l "uc.cs").toList (nat l "uc.n") (nat l "uc.d") (natList l "idx") with
      | some s => esc (String.ofList s)
      | none => "panic"
    some (m, esc (str l "o.uc"))
  | "usercodebytes" =>
    let stream := hexBytes (str l "stream").toList
    let m := match Hand.NewUserCodeFromStream (str l "uc.cs").toList (nat l "uc.n") (nat l "uc.d") stream with
      | .code c rest => s!"ok:{esc (String.ofList c)}:{stream.length - rest.length}"
      | .entropyError => "err:entropy"
      | .panic => "panic"
    let o := match str l "obs" with
      | "ok" => s!"ok:{esc (str l "o.uc")}:{nat l "o.used"}"
      | "err" => "err:" ++ str l "o.err"
      | x => x
    some (m, o)
  | "devicecode" => some (esc (Hand.NewDeviceCode (hexBytes (str l "bytes").toList)), esc (str l "o.dc"))
  | _ => none

def step (fs : FullSt) (l : Line) : FullSt × String :=
  let (mon', v) := monStep fs.mon l
  match pureStep l with
  | some (m, o) =>
    ({ fs with mon := mon' }, s!"case={str l "case"} class={classOf l} model={m} observed={o} monitor={showMon v} agree={if m == o then 1 else 0}")
  | none =>
    let (m0, o0) := modelStep fs.mod l (int l "now0")
    let (_, o1) := modelStep fs.mod l (int l "now1")
    let stable := o0 == o1
    let obsS := showObs l
    let agree := !stable || str l "op" == "reset" || o0 == obsS
    ({ mon := mon', mod := m0 },
     s!"case={str l "case"} class={classOf l} model={if stable then o0 else "unstable"} observed={obsS} monitor={showMon v} agree={if agree then 1 else 0}")

end Drv.C16
