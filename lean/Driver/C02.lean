import Driver.C02Mon
import OidcModel.Generated.RPVerifier
open Kv Drv

namespace Drv.C02

/-- sequential `remoteKeySet.VerifySignature` on a long-lived key set: the cached keys (what the endpoint served
    last, `pre.`) decide when they hold the named / only candidate key and its signature check settles the matter;
    otherwise the set is downloaded again (`cur.`) and decides.  Returns the deciding keys and whether a download happens. -/
def remoteDecisive (cached served : List JWK) (j : JWS) : List JWK × Bool :=
  let (kid, alg) := Hand.GetKeyIDAndAlg j
  if cached.isEmpty then (served, true) else
  match Hand.FindMatchingKey kid "sig" alg cached with
  | .error _ => (served, true)
  | .ok k =>
    match Hand.jwsVerify j k with
    | .ok _ => (cached, false)
    | .error _ => if (if k.KeyID == "" && kid == "" then false else k.KeyID == kid) then (cached, false) else (served, true)

def rpVerifier (l : Line) (t : Token) : Verifier :=
  let v := parseVerifier l
  if has l "stateful" then
    match t.jws with
    | some j => { v with KeySet := { kind := .published, keys := (remoteDecisive (parseKeySet l "pre.").keys (parseKeySet l "cur.").keys j).1 } }
    | none => { v with KeySet := parseKeySet l "cur." }
  else v

/-- downloads the model predicts for a call on a long-lived key set (none: not such a line) -/
def modelFetches (l : Line) (t : Token) : Option Nat :=
  if !has l "stateful" then none else
  match Hand.ParseToken 0 t, Hand.joseParseSigned t (Hand.toJoseSignatureAlgorithms (list l "v.algs")) with
  | .ok _, .ok j =>
    match j.Signatures with
    | [_] => some (if (remoteDecisive (parseKeySet l "pre.").keys (parseKeySet l "cur.").keys j).2 then 1 else 0)
    | _ => some 0
  | _, _ => some 0

def runModel (l : Line) (now : Int) : Go.R Claims :=
  let t := parseTokenX l
  match str l "verifier" with
  | "rp" => Gen.VerifyIDToken now t (rpVerifier l t)
  | "at" => Gen.OPVerifyAccessToken now t (parseVerifier l)
  | "hint" =>
    match Gen.VerifyIDTokenHint now t (parseVerifier l) with
    | .ok (.valid c) => .ok c
    | .ok (.expired c _) => .ok c
    | .error e => .error e
  | "assertion" =>
    let sc : Option (Claims → Go.R Unit) := if has l "v.subjcheck" then some (fun _ => .ok ()) else none
    Gen.VerifyJWTAssertion now t { Issuer := str l "v.iss", MaxAgeIAT := int l "v.maxiat", Offset := int l "v.off", Storage := parseRegistry l, CheckSubject := sc }
  | _ => .error "bad-verifier"

def step (l : Line) : String :=
  if str l "verifier" == "fmk" then
    let ks := parseKeySet l "ks."
    let m := Hand.FindMatchingKey (str l "kid") "sig" (str l "alg") ks.keys
    let agree := match m with
      | .ok k => str l "obs" == "ok" && ks.keys[nat l "o.idx"]? == some k
      | .error e => obsString l == "err:" ++ e
    s!"case={str l "case"} model={showR m} observed={obsString l} monitor={showMon (monitorLine l)} agree={if agree then 1 else 0}"
  else
  let m0 := runModel l (int l "now0")
  let m1 := runModel l (int l "now1")
  let stable := showR m0 == showR m1
  let modelS := if stable then showR m0 else "unstable"
  let obsS := obsString l
  let t := parseTokenX l
  -- the oracle's three header views must fit together as the model merges them
  let merged := match t.jws with
    | some j => j.Signatures.all Hand.headerMerged
    | none => true
  -- a long-lived remote key set: the downloads the endpoint saw are the ones the model predicts
  let fetchesOK := match modelFetches l t with
    | some n => n == nat l "o.fetches"
    | none => true
  -- accept / reject must coincide; error names are compared when the model names a sentinel
  let agree := merged && fetchesOK && (!stable || (match m0 with
    | .ok _ => obsS == "ok"
    | .error e => obsS != "ok" && obsS != "panic" && (!e.startsWith "Err" || obsS == "err:" ++ e)))
  s!"case={str l "case"} model={modelS} observed={obsS} monitor={showMon (monitorLine l)} agree={if agree then 1 else 0}"

end Drv.C02
