import Driver.C02Mon
import OidcModel.Generated.RPVerifier
open Kv Drv

namespace Drv.C02

def runModel (l : Line) (now : Int) : Go.R Claims :=
  let t := parseToken l
  match str l "verifier" with
  | "rp" => Gen.VerifyIDToken now t (parseVerifier l)
  | "at" => Gen.OPVerifyAccessToken now t (parseVerifier l)
  | "hint" =>
    match Gen.VerifyIDTokenHint now t (parseVerifier l) with
    | .ok (.valid c) => .ok c
    | .ok (.expired c _) => .ok c
    | .error e => .error e
  | "assertion" =>
    let sc : Option (Claims → Go.R Unit) := if has l "v.subjcheck" then some (fun _ => .ok ()) else none
    Gen.VerifyJWTAssertion now t { Issuer := str l "v.iss", MaxAgeIAT := int l "v.maxiat", Offset := int l "v.off", Storage := parseRegistry l, CheckSubject := sc }
  | _ => .error "bad-verifier"

def step (l : Line) : String :=
  if str l "verifier" == "fmk" then
    let ks := parseKeySet l "ks."
    let m := Hand.FindMatchingKey (str l "kid") "sig" (str l "alg") ks.keys
    let agree := match m with
      | .ok k => str l "obs" == "ok" && ks.keys[nat l "o.idx"]? == some k
      | .error e => obsString l == "err:" ++ e
    s!"case={str l "case"} model={showR m} observed={obsString l} monitor={showMon (monitorLine l)} agree={if agree then 1 else 0}"
  else
  let m0 := runModel l (int l "now0")
  let m1 := runModel l (int l "now1")
  let stable := showR m0 == showR m1
  let modelS := if stable then showR m0 else "unstable"
  let obsS := obsString l
  -- accept / reject must coincide; error names are compared when the model names a sentinel
  let agree := !stable || (match m0 with
    | .ok _ => obsS == "ok"
    | .error e => obsS != "ok" && obsS != "panic" && (!e.startsWith "Err" || obsS == "err:" ++ e))
  s!"case={str l "case"} model={modelS} observed={obsS} monitor={showMon (monitorLine l)} agree={if agree then 1 else 0}"

end Drv.C02
