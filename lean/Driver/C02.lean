import Driver.C02Mon
import OidcModel.Generated.RPVerifier
import OidcModel.Generated.VerifiersC02
import OidcModel.Generated.ProviderC02
import OidcModel.Generated.JwksDocC02
open Kv Drv

namespace Drv.C02

/-- sequential `remoteKeySet.VerifySignature` on a long-lived key set: the cached keys (what the endpoint served
    last, `pre.`) decide when they hold the named / only candidate key and its signature check settles the matter;
    otherwise the set is downloaded again (`cur.`) and decides.  Returns the deciding keys and whether a download happens. -/
def remoteDecisive (cached served : List JWK) (j : JWS) : List JWK × Bool :=
  let (kid, alg) := Hand.GetKeyIDAndAlg j
  if cached.isEmpty then (served, true) else
  match Hand.FindMatchingKey kid "sig" alg cached with
  | .error _ => (served, true)
  | .ok k =>
    match Hand.jwsVerify j k with
    | .ok _ => (cached, false)
    | .error _ => if (if k.KeyID == "" && kid == "" then false else k.KeyID == kid) then (cached, false) else (served, true)

/-- part 8: the oracles of the document parser as the line carries them: encoding/json on the top level (`doc.ok`, `doc.n` raw
    entries), go-jose's per-key parser on raw entry `i` (`doc.<i>.v`; what it read: `doc.<i>.o.*`).  A raw entry is its position
    and what the harness's own reading says it declares (`doc.<i>.h.*`). -/
def docRaw (l : Line) : List C02JRaw :=
  (List.range (nat l "doc.n")).map fun i =>
    let q := "doc." ++ toString i ++ ".h."
    { bytes := i,
      pub := if bool l (q ++ "mat") then
          some { KeyID := str l (q ++ "kid"), Use := str l (q ++ "use"), kty := parseKty (str l (q ++ "kty")), keyNo := nat l (q ++ "no") }
        else none }

def docOracle (l : Line) : C02JOracle :=
  { jsonUnmarshal := fun _ _ => if bool l "doc.ok" then .ok { Keys := docRaw l } else .error "json: cannot unmarshal",
    parseJWK := fun _ r =>
      let q := "doc." ++ toString r.bytes ++ "."
      if bool l (q ++ "v") then
        .ok { KeyID := str l (q ++ "o.kid"), Use := str l (q ++ "o.use"), kty := parseKty (str l (q ++ "o.kty")), keyNo := nat l (q ++ "o.no") }
      else .error "go-jose/go-jose: invalid JWK" }

/-- the key list the REGENERATED `jsonWebKeySet.UnmarshalJSON` makes of the served document (a document it refuses: the download
    fails, no key) -/
def docKeys (l : Line) : List JWK :=
  match GenC02J.jsonWebKeySetUnmarshalJSON 0 (docOracle l) {} { bytes := 0 } with
  | .ok ks => ks.Keys
  | .error _ => []

/-- go-jose's reading of an entry it accepts is the harness's own reading of the same bytes (the oracle is faithful to the declared members) -/
def docFaithful (l : Line) : Bool :=
  (docRaw l).all fun r =>
    match (docOracle l).parseJWK default r with
    | .ok k => r.pub == some k
    | .error _ => true

/-- what a download in this call yields: the published key list (`cur.`), or - part 8 - what the regenerated parser makes of the
    document published now -/
def curKeys (l : Line) : List JWK := if has l "doc.n" then docKeys l else (parseKeySet l "cur.").keys

def rpVerifier (l : Line) (t : Token) : Verifier :=
  let v := parseVerifier l
  if has l "stateful" then
    match t.jws with
    | some j => { v with KeySet := { kind := .published, keys := (remoteDecisive (parseKeySet l "pre.").keys (curKeys l) j).1 } }
    | none => { v with KeySet := { kind := .published, keys := curKeys l } }
  else if has l "doc.n" then { v with KeySet := { kind := .published, keys := docKeys l } }
  else v

/-- downloads the model predicts for a call on a long-lived key set (none: not such a line) -/
def modelFetches (l : Line) (t : Token) : Option Nat :=
  if !has l "stateful" then none else
  match Hand.ParseToken 0 t, Hand.joseParseSigned t (Hand.toJoseSignatureAlgorithms (list l "v.algs")) with
  | .ok _, .ok j =>
    match j.Signatures with
    | [_] => some (if (remoteDecisive (parseKeySet l "pre.").keys (curKeys l) j).2 then 1 else 0)
    | _ => some 0
  | _, _ => some 0

def runModel (l : Line) (now : Int) : Go.R Claims :=
  let t := parseTokenX l
  match str l "verifier" with
  | "rp" => Gen.VerifyIDToken now t (rpVerifier l t)
  | "at" => Gen.OPVerifyAccessToken now t (parseVerifier l)
  | "hint" =>
    match Gen.VerifyIDTokenHint now t (parseVerifier l) with
    | .ok (.valid c) => .ok c
    | .ok (.expired c _) => .ok c
    | .error e => .error e
  | "assertion" =>
    -- the verifier as constructed, then the option the harness passed (the regenerated `op.SubjectCheck`)
    let v0 : JWTProfileVerifier := { Issuer := str l "v.iss", MaxAgeIAT := int l "v.maxiat", Offset := int l "v.off", Storage := parseRegistry l }
    let v := if has l "v.subjcheck" then GenC02.SubjectCheck now (some (fun _ => .ok ())) v0 else v0
    Gen.VerifyJWTAssertion now t v
  | _ => .error "bad-verifier"

/-- the model's verifier objects of the running reuse history (part 6): what the previous calls left behind in them -/
structure FullSt where
  jv : Option JWTProfileVerifier := none
  v : Option Verifier := none
instance : Inhabited FullSt := ⟨{}⟩

/-- one call on the history's verifier OBJECT: the regenerated state-returning twins (`GenC02.*St`), started from what the
    previous step left (step 0: the object as constructed); what lives outside the object (the storage's published keys, the
    client-key registry) is this step's -/
def runReuse (st : FullSt) (l : Line) (now : Int) : Go.R Claims × FullSt :=
  let t := parseTokenX l
  let first := nat l "g.step" == 0
  match str l "verifier" with
  | "assertion" =>
    let fresh : JWTProfileVerifier :=
      { Issuer := str l "v.iss", MaxAgeIAT := int l "v.maxiat", Offset := int l "v.off", Storage := parseRegistry l,
        keySet := if str l "v.ks" == "explicit" then parseKeySet l "ks." else { kind := .nilSet } }
    let v0 := match st.jv with
      | some v => if first then fresh else { v with Storage := parseRegistry l }
      | none => fresh
    let r := GenC02.VerifyJWTAssertionSt now t v0
    (r.1, { st with jv := some r.2 })
  | "at" =>
    let v0 := match st.v with
      | some v => if first then parseVerifier l else { v with KeySet := parseKeySet l "ks." }
      | none => parseVerifier l
    let r := GenC02.OPVerifyAccessTokenSt now t v0
    (r.1, { st with v := some r.2 })
  | "hint" =>
    let v0 := match st.v with
      | some v => if first then parseVerifier l else { v with KeySet := parseKeySet l "ks." }
      | none => parseVerifier l
    let r := GenC02.VerifyIDTokenHintSt now t v0
    (match r.1 with
      | .ok (.valid c) => .ok c
      | .ok (.expired c _) => .ok c
      | .error e => .error e, { st with v := some r.2 })
  | _ => (.error "bad-verifier", st)

/-- part 5: does the endpoint's reader believe the token?  The provider is configured as the harness configured it (the
    regenerated provider options and functional options), the verifier is the one the regenerated getters / `revocationKeySet.verifier`
    derive, the reader is the regenerated one of that endpoint -/
def endpointModel (l : Line) (now : Int) : Bool :=
  let t := parseTokenX l
  let ks := parseKeySet l "ks."
  let algs := list l "v.algs"
  let iss := str l "v.iss"
  let p0 : C02Provider := { accessTokenKeySet := ks, idTokenHinKeySet := ks, tokenOf := fun _ => t, jtiOf := fun _ => str l "t.jti" }
  let p : C02Provider :=
    if has l "cfg.n" then
      -- part 7: the provider the REGENERATED `NewProvider` builds from the storage and the option list of the construction call
      -- (the regenerated options; an option that concerns neither verifier: `WithAllowInsecure`)
      let opts : List C02Option := (parseCfg l).map fun o =>
        match o with
        | .atKeySet k => GenC02.WithAccessTokenKeySet now k
        | .hintKeySet k => GenC02.WithIDTokenHintKeySet now k
        | .atAlgs ls => GenC02.WithAccessTokenVerifierOpts now (ls.map (GenC02.WithSupportedAccessTokenSigningAlgorithms now))
        | .hintAlgs ls => GenC02.WithIDTokenHintVerifierOpts now (ls.map (GenC02.WithSupportedIDTokenHintSigningAlgorithms now))
        | .other => fun o => .ok { o with insecure := true }
      match GenC02P.NewProvider now {} { keySet := .ok ks.keys } (fun _ => .ok (fun _ => iss)) opts with
      | .ok q => { q with tokenOf := fun _ => t, jtiOf := fun _ => str l "t.jti" }
      | .error _ => p0
    else if has l "v.cfg" then
      match GenC02.WithAccessTokenVerifierOpts now [GenC02.WithSupportedAccessTokenSigningAlgorithms now algs] p0 with
      | .ok p1 =>
        match GenC02.WithIDTokenHintVerifierOpts now [GenC02.WithSupportedIDTokenHintSigningAlgorithms now algs] p1 with
        | .ok p2 => p2
        | .error _ => p1
      | .error _ => p0
    else p0
  let hint := Gen.VerifyIDTokenHint now t (GenC02.ProviderIDTokenHintVerifier now iss p)
  if str l "verifier" == "assertion" then
    -- client authentication by assertion / the jwt-bearer grant: the verifier `Provider.JWTProfileVerifier` builds (C14 regenerates
    -- the getter: issuer of the request, one hour, one second, no explicit key set) over the client-key registry
    (Gen.VerifyJWTAssertion now t { Issuer := iss, MaxAgeIAT := int l "v.maxiat", Offset := int l "v.off", Storage := parseRegistry l }).toBool
  else
  match str l "ep" with
  | "revocation" =>
    match GenC02.getTokenIDAndSubjectForRevocation now iss p "jwt" with
    | .ok (_, _, ok) => ok
    | .error _ => false
  | "introspection" => (GenC02.getTokenIDAndSubject now iss p "jwt").2.2
  | "userinfo" => (GenC02.getTokenIDAndSubject now iss p "jwt").2.2
  | "exchange-subject-at" => (GenC02.getTokenIDAndClaims now iss p "jwt").2.2.2
  | "exchange-actor-at" => (GenC02.getTokenIDAndClaims now iss p "jwt").2.2.2
  | "exchange-subject-idt" => (match hint with | .ok (.valid _) => true | _ => false)   -- an expired hint is an error for this caller
  | _ => (match hint with | .ok _ => true | .error _ => false)                           -- end_session, authorize: expired hints still count

def stepEndpoint (l : Line) : String :=
  let m0 := endpointModel l (int l "now0")
  let m1 := endpointModel l (int l "now1")
  let stable := m0 == m1
  let show_ (b : Bool) := if b then "ok" else "err:not-believed"
  let obsS := if str l "obs" == "ok" then "ok" else if str l "obs" == "panic" then "panic" else "err:" ++ str l "o.err"
  let agree := !stable || (obsS == show_ m0)
  s!"case={str l "case"} class=ep-{str l "ep"}-{str l "router"} model={if stable then show_ m0 else "unstable"} observed={obsS} monitor={showMon (monitorLine l)} agree={if agree then 1 else 0}"

def stepSt (st : FullSt) (l : Line) : FullSt × String :=
  if has l "ep" then (st, stepEndpoint l) else
  if str l "verifier" == "fmk" then
    let ks := parseKeySet l "ks."
    let m := Hand.FindMatchingKey (str l "kid") "sig" (str l "alg") ks.keys
    let agree := match m with
      | .ok k => str l "obs" == "ok" && ks.keys[nat l "o.idx"]? == some k
      | .error e => obsString l == "err:" ++ e
    (st, s!"case={str l "case"} model={showR m} observed={obsString l} monitor={showMon (monitorLine l)} agree={if agree then 1 else 0}")
  else
  let reuse := has l "reuse"
  let r0 := if reuse then runReuse st l (int l "now0") else (runModel l (int l "now0"), st)
  let m0 := r0.1
  let m1 := if reuse then (runReuse st l (int l "now1")).1 else runModel l (int l "now1")
  let stable := showR m0 == showR m1
  let modelS := if stable then showR m0 else "unstable"
  let obsS := obsString l
  let t := parseTokenX l
  -- the oracle's three header views must fit together as the model merges them
  let merged := match t.jws with
    | some j => j.Signatures.all Hand.headerMerged
    | none => true
  -- a long-lived remote key set: the downloads the endpoint saw are the ones the model predicts
  let fetchesOK := match modelFetches l t with
    | some n => n == nat l "o.fetches"
    | none => true
  -- accept / reject must coincide; error names are compared when the model names a sentinel
  -- part 8: the two readings of the served document agree on every entry go-jose accepts
  let docOK := !has l "doc.n" || (docFaithful l && bool l "doc.ok" == bool l "doc.h.ok")
  let agree := merged && fetchesOK && docOK && (!stable || (match m0 with
    | .ok _ => obsS == "ok"
    | .error e => obsS != "ok" && obsS != "panic" && (!e.startsWith "Err" || obsS == "err:" ++ e)))
  (r0.2, s!"case={str l "case"} model={modelS} observed={obsS} monitor={showMon (monitorLine l)} agree={if agree then 1 else 0}")

/-- stateless entry point (lines that belong to no reuse history) -/
def step (l : Line) : String := (stepSt {} l).2

end Drv.C02
