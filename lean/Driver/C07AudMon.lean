/-
  deep5-C07: parser of the keys that describe the audiences of the tokens of a refresh response (`o.aud` = audience of the request
  the storage was handed for rotation = of the access-token record it created, `o.jwt.aud`, `o.idt.aud`).  Spec types only.
-/
import Driver.C07FaultMon
import OidcModel.Spec.C07Aud
open Kv Drv

namespace Drv.Wire

def parseAuds (l : Line) : FlowObs.TokenAuds :=
  { rotation := if has l "o.handed" && has l "o.aud" then some (list l "o.aud") else none,
    jwtAccess := if has l "o.jwt.aud" then some (list l "o.jwt.aud") else none,
    idToken := if has l "o.idt.aud" then some (list l "o.idt.aud") else none }

/-- deep5: the audiences of a refresh response against the ORIGINAL grant (state BEFORE the line), after the earlier layers -/
def audVerdict (ms : FlowObs.ObsState) (l : Line) (earlier : Option String) : Option String :=
  if str l "op" == "refresh" && has l "o.auds" then FlowObs.audVerdict ms (parseAnswer l) (parseAuds l) earlier else earlier

end Drv.Wire
