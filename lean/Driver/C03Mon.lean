import Driver.Kv
import OidcModel.Spec.C03
open Kv

/-!
  C03 line protocol (one line = one HTTP request against the real authorization endpoint / callback):
    op=reset     router=… ro=0|1  cl.n, cl.<i>.{id,app,auth,redirects,dev,resptypes,globs?,login}
    op=authorize client uri rt mode state scopes prompt hint request parse=ok|err  f.getclient? f.create?
    op=login     id
    op=callback  id  f.byid? f.getclient? f.savecode? f.token?
  every request line carries the library answers (oracle): u.<i>.* (net/url.Parse), ip.<i>.* (net.ParseIP.IsLoopback),
  g.<i>.* (doublestar.Match) and the observation: obs=page|redirect|formpost|panic, o.status, o.loc, o.action, o.where, o.kind.
  This file is the MONITOR side only: Spec + line parsing, nothing generated.
-/
namespace Drv.C03

def parseClient (l : Line) (p : String) : OPClient :=
  { id := str l (p ++ "id"), app := nat l (p ++ "app"), auth := str l (p ++ "auth"),
    redirectURIs := list l (p ++ "redirects"), devMode := bool l (p ++ "dev"), respTypes := list l (p ++ "resptypes"),
    globs := if has l (p ++ "globs") then some (list l (p ++ "globs")) else none }

def parseClients (l : Line) : List OPClient :=
  (List.range (nat l "cl.n")).map fun i => parseClient l ("cl." ++ toString i ++ ".")

def parseLogins (l : Line) : List (String × String) :=
  (List.range (nat l "cl.n")).map fun i => (str l s!"cl.{i}.id", str l s!"cl.{i}.login")

/-- the recorded answers of net/url, net.ParseIP, doublestar for this request -/
def parseOracle (l : Line) : UriOracle :=
  let us : List (String × Go.R URL) := (List.range (nat l "u.n")).map fun i =>
    let p := s!"u.{i}."
    (str l (p ++ "s"),
     if bool l (p ++ "ok") then
       .ok { Scheme := str l (p ++ "scheme"), Host := str l (p ++ "host"), Hostname := str l (p ++ "hostname"), Path := str l (p ++ "path"),
             RawQuery := str l (p ++ "rq"), User := str l (p ++ "user"), EscapedPath := str l (p ++ "epath"), Fragment := str l (p ++ "frag") }
     else .error "parse")
  let ips : List (String × Bool) := (List.range (nat l "ip.n")).map fun i => (str l s!"ip.{i}.h", bool l s!"ip.{i}.loop")
  let gs : List (String × String × Go.R Bool) := (List.range (nat l "g.n")).map fun i =>
    (str l s!"g.{i}.p", str l s!"g.{i}.u",
     match (raw l s!"g.{i}.r").getD "" with
     | "1" => .ok true
     | "0" => .ok false
     | _ => .error "syntax error in pattern")
  { parse := fun s => match us.find? (·.1 == s) with
      | some (_, r) => r
      | none => .error "no-oracle-entry",
    parseIP := fun h => ⟨((ips.find? (·.1 == h)).map (·.2)).getD false⟩,
    globMatch := fun p u => match gs.find? (fun g => g.1 == p && g.2.1 == u) with
      | some (_, _, r) => r
      | none => .error "no-oracle-entry" }

structure MonSt where
  m : _root_.C03.MonState := {}
  logins : List (String × String) := []      -- client id ↦ prefix of its login URL
  deriving Inhabited

/-- what the observed response does with the user agent -/
def sentOfObs (st : MonSt) (o : UriOracle) (l : Line) (client : String) : _root_.C03.Sent :=
  match str l "obs" with
  | "redirect" =>
    let loc := str l "o.loc"
    match st.logins.find? (·.1 == client) with
    | some (_, pfx) =>
      if pfx != "" && Go.hasPrefix loc pfx then .login (String.ofList (loc.toList.drop pfx.length)) else .to (_root_.C03.destOf o loc)
    | none => .to (_root_.C03.destOf o loc)
  | "formpost" => .to (_root_.C03.destOf o (str l "o.action"))
  | _ => .nowhere

/-- client of the request a callback refers to (as the observer recorded it) -/
def callbackClient (st : MonSt) (id : String) : String :=
  ((st.m.accepted.find? (·.id == id)).map (·.client)).getD ""

/-- one observed line: new observer state, verdict of the STRICT monitor, what was sent -/
def monStep (st : MonSt) (l : Line) : MonSt × Option String × _root_.C03.Sent :=
  match str l "op" with
  | "reset" => ({ m := { clients := parseClients l }, logins := parseLogins l }, none, .nowhere)
  | "authorize" =>
    let o := parseOracle l
    let s := sentOfObs st o l (str l "client")
    let v := if str l "parse" == "err" then (if s == .nowhere then none else some "redirect-without-a-request")
             else _root_.C03.monitorAuthorize true st.m o (str l "client") (str l "uri") (str l "rt") s
    ({ st with m := _root_.C03.onAuthorize st.m (str l "client") (str l "uri") (str l "rt") s }, v, s)
  | "callback" =>
    let o := parseOracle l
    let s := match sentOfObs st o l (callbackClient st (str l "id")) with
      | .login _ => .to (_root_.C03.destOf o (str l "o.loc"))      -- a callback has no business with the login page
      | x => x
    (st, _root_.C03.monitorCallback true st.m o (str l "id") s, s)
  | _ => (st, none, .nowhere)

def showSent (s : _root_.C03.Sent) : String :=
  match s with
  | .nowhere => "nowhere"
  | .login _ => "login"
  | .to _ => "sent"

def showMon (m : Option String) : String :=
  match m with
  | none => "ok"
  | some c => "VIOLATED:" ++ c

def obsClass (l : Line) : String :=
  match str l "obs" with
  | "redirect" => "redirect:" ++ (if has l "o.kind" then esc (str l "o.kind") else "login")
  | "formpost" => "formpost:" ++ esc (str l "o.kind")
  | x => x

def stepMon (st : MonSt) (l : Line) : MonSt × String :=
  let (st', v, s) := monStep st l
  (st', s!"case={str l "case"} class={str l "op"}:{str l "cls"}:{obsClass l} model=- observed={showSent s} monitor={showMon v} agree=1")

end Drv.C03
