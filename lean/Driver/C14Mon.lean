import Driver.C02Mon
import OidcModel.Spec.C14
open Kv Drv

namespace Drv.C14

def parseROClaims (l : Line) : Claims :=
  { iss := str l "c.iss", aud := list l "c.aud", clientID := str l "c.client",
    ro := { ResponseType := str l "c.ro.rt", RedirectURI := str l "c.ro.redirect", State := str l "c.ro.state", Nonce := str l "c.ro.nonce",
            ResponseMode := str l "c.ro.mode", CodeChallenge := str l "c.ro.cc", CodeChallengeMethod := str l "c.ro.ccm", Scopes := list l "c.ro.scopes" } }

/-- the request-object token: same structure as any token, with request-object claims -/
def parseROToken (l : Line) : Token :=
  let t := parseToken l
  let claims := if bool l "t.json" then some (parseROClaims l) else none
  { t with middle := t.middle.map fun p => { p with claims := claims },
           jws := t.jws.map fun j => { j with payload := { j.payload with claims := if (t.middle.map (·.bytes)) == some j.payload.bytes then claims else none } } }

def plainReq (l : Line) : AuthRequestIn :=
  { ClientID := str l "p.client", ResponseType := str l "p.rt", RedirectURI := str l "p.redirect", Scopes := list l "p.scopes",
    State := str l "p.state", Nonce := str l "p.nonce", RequestParam := "present", RequestToken := parseROToken l }

def afterReq (l : Line) : AuthRequestIn :=
  { ClientID := str l "o.client", ResponseType := str l "o.rt", RedirectURI := str l "o.redirect", Scopes := list l "o.scopes",
    State := str l "o.state", Nonce := str l "o.nonce", ResponseMode := str l "o.mode", CodeChallenge := str l "o.cc",
    CodeChallengeMethod := str l "o.ccm", RequestParam := str l "o.reqparam" }

def obsString (l : Line) : String :=
  match str l "obs" with
  | "ok" => "ok"
  | "err" => if has l "o.err" then "err:" ++ str l "o.err" else "err"
  | x => x

def returnedClaims (l : Line) : Claims :=
  { iss := str l "o.iss", sub := str l "o.sub", aud := list l "o.aud", exp := int l "o.exp", iat := int l "o.iat" }

/-- (deep 4) the subject check this provider's verifier is configured with (`v.subjcheck`): `all` admits every subject, `table`
    admits sub = iss and the listed pairs `iss>sub`; absent: the default -/
def subjCheckOf (l : Line) : Option (Claims → Bool) :=
  match str l "v.subjcheck" with
  | "all" => some fun _ => true
  | "table" => let tb := list l "v.subjtable"; some fun c => c.sub == c.iss || tb.contains (c.iss ++ ">" ++ c.sub)
  | _ => none

/-- an `endpoint` line: the request as addressed, and what the endpoint was observed to do -/
def epReq (l : Line) : C14.EndpointReq :=
  let iss := str l "c.iss"
  let method := ((List.range (nat l "cl.n")).find? fun i => str l s!"cl.{i}.id" == iss).map fun i => str l s!"cl.{i}.auth"
  { reqIssuer := str l "req.iss", assertion := parseToken l, bearerGrant := str l "ep" == "bearer",
    requestedScopes := list l "scope.req", refusedScopes := list l "scope.forbidden", helperMade := str l "mint" == "helper" && bool l "proper",
    clientAuth := str l "ep" != "bearer", registeredMethod := method,
    contextOK := bool l "ctx.ok",
    libraryAddressed := (str l "wire" == "tokensource" || str l "wire" == "rsintrospect") && bool l "ctx.ok",
    subjectCheck := subjCheckOf l }

def epObs (l : Line) : C14.EndpointObs :=
  { accepted := str l "obs" == "ok", identity := opt l "o.id", scopes := if has l "o.scope" then some (list l "o.scope") else none }

def monitorLine (l : Line) : Option String :=
  if str l "obs" == "panic" then some "panic" else
  let registry := Drv.C02.parseRegistry l
  match str l "kind" with
  | "assertion" =>
    if str l "obs" != "ok" then none else
    let t := parseToken l
    let c := returnedClaims l
    let chk (now : Int) := C14.assertionOK (str l "v.iss") (int l "v.maxiat") (int l "v.off") (!has l "v.subjcheck") registry t now c
    match chk (int l "now0"), chk (int l "now1") with
    | some a, some _ => some a
    | _, _ => none
  | "helper" => C14.helperOK (str l "obs" == "ok")
  | "mint" =>
    -- the helper on its own: when it produced an assertion from a registered key, for the issuer, the verifier must accept it
    if str l "h.obs" == "ok" && bool l "helper" then C14.helperOK (str l "obs" == "ok") else none
  | "seq" =>
    -- one answer of a verifier object that serves a whole sequence: judged on its own (no history argument)
    let t := parseToken l
    let accepted : Option Claims :=
      if str l "obs" != "ok" then none
      else if str l "via" == "clientauth" then some { ((t.middle.bind (·.claims)).getD {}) with iss := str l "o.id" }
      else some (returnedClaims l)
    C14.sequenceStepOK (str l "v.iss") (int l "v.maxiat") (int l "v.off") (!has l "v.subjcheck") registry t (bool l "helper")
      (int l "now0") (int l "now1") accepted
  | "endpoint" =>
    let registry := Drv.C02.parseRegistry l
    let rq := epReq l
    let obs := epObs l
    -- a time-dependent clause counts only when it fails at both ends of the call
    match C14.endpointSound registry rq (int l "now0") obs, C14.endpointSound registry rq (int l "now1") obs with
    | some a, some _ => some a
    | _, _ => (C14.endpointHelper registry rq obs).orElse fun _ => C14.endpointProper registry rq (int l "now0") (int l "now1") obs
  | "reqobj" | "roendpoint" =>
    C14.requestObjectOK (str l "v.iss") registry (plainReq l) (if str l "obs" == "ok" then some (afterReq l) else none)
  | _ => some "bad-kind"

def lineClass (l : Line) : String :=
  if str l "kind" == "endpoint" then s!"endpoint:{str l "router"}:{str l "ep"}:{str l "mint"}:aud-{str l "aud"}:{str l "order"}:{str l "vlife"}:{str l "wire"}:{if has l "v.subjcheck" then "subj-" ++ str l "v.subjcheck" ++ "-" ++ str l "subrel" ++ ":" else ""}{if has l "far" then "far-" ++ str l "far" ++ ":" else ""}{str l "obs"}"
  else if str l "kind" == "roendpoint" then s!"roendpoint:{str l "router"}:{str l "issmode"}:ro-{str l "ro.supported"}:aud-{str l "aud"}:{str l "signer"}:{str l "obs"}"
  else if str l "kind" == "mint" then s!"mint:{str l "family"}:{str l "h.form"}:{str l "h.obs"}:{obsString l}"
  else if str l "kind" == "seq" then s!"seq:{str l "via"}:{str l "vlife"}:{str l "rel"}:{str l "variant"}:signer-{str l "signer"}:{obsString l}"
  else s!"{str l "kind"}:{if has l "far" then "far-" ++ str l "far" ++ ":" else ""}{obsString l}"

def stepMon (l : Line) : String :=
  s!"case={str l "case"} class={lineClass l} model=- observed={obsString l} monitor={showMon (monitorLine l)} agree=1"

end Drv.C14
