import Driver.C10Mon
import OidcModel.Generated.C10Facts
open Kv Drv

/-
  C10 driver with the regenerated program: besides the monitor (Driver/C10Mon.lean) it checks that the storage method the
  harness saw failing is a call site of some regenerated error-flow tree - a storage call the extractor does not see
  (a receiver its heuristics miss, a new optional interface) would otherwise stay outside `c10_fail_closed_handlers_partial`
  without anybody noticing.
-/
namespace Drv.C10

/-- the storage methods called by the regenerated trees (evaluated once) -/
def extractedMethods : List String :=
  _root_.C10.Flow.dedupStr (GenC10.fns.flatMap fun F => _root_.C10.Flow.storageMethods F.sk)

def stepModel (l : Line) : String :=
  let out := step l
  let m := ((str l "failed").takeWhile (· != '(')).toString
  if bool l "hit" && !extractedMethods.contains m then
    -- the call is not part of the regenerated program: the translator tie does not cover it
    (out.replace "model=error" "model=unextracted-storage-call").replace "agree=1" "agree=0"
  else out

end Drv.C10
