import Driver.C17Mon
import OidcModel.Generated.RPHandlers
import OidcModel.Generated.RPCookieNew
open Kv Drv

/-
  C17 model driver: recomputes every observed handler run with the REGENERATED handlers and compares.
-/
namespace Drv.C17

def sortKV (xs : List (String × String)) : List (String × String) := xs.mergeSort fun a b => decide (a.1 ≤ b.1)

/-- one functional option of the cookie handler as written on the line (`chopts`): unsecure | maxage:<n> | samesite:<n> | path:<p> | domain:<d> -/
def chOpt (s : String) : CookieHandlerOpt :=
  match s.splitOn ":" with
  | ["unsecure"] => Gen.WithUnsecure 0
  | ["maxage", n] => Gen.WithMaxAge 0 (n.toInt?.getD 0)
  | ["samesite", n] => Gen.WithSameSite 0 (n.toInt?.getD 0)
  | "path" :: p => Gen.WithPath 0 (":".intercalate p)
  | "domain" :: d => Gen.WithDomain 0 (":".intercalate d)
  | _ => id

/-- the cookie handler as the REGENERATED `NewCookieHandler` builds it from the configured keys and options; the encode oracle
    (can securecookie encode this state / a verifier) is put in afterwards -/
def mkHandler (l : Line) (es ep : Bool) : CookieHandler :=
  let ch := Gen.NewCookieHandler 0 (hexBytes (str l "hk")) (hexBytes (str l "bk")) ((list l "chopts").map chOpt)
  { ch with securecookie := { ch.securecookie with encodable := fun n _ => if n == "state" then es else ep } }

def mkRP (l : Line) : RP :=
  let es := if has l "es" then bool l "es" else true
  let ep := if has l "ep" then bool l "ep" else true
  let provfail := bool l "provfail"
  { oauthConfig := { ClientID := str l "cid", ClientSecret := "secret", RedirectURL := str l "ruri", Scopes := list l "sc",
                     Endpoint := { AuthURL := "http://op.local/authorize", TokenURL := "" } },
    cookieHandler := some (mkHandler l es ep),
    pkce := bool l "pkce",
    signer := match nat l "sg" with | 0 => none | 1 => some { ok := true } | _ => some { ok := false },
    provider := fun _ => if provfail then .error "refused" else .ok { id := 0 } }

def urlOpts (l : Line) : List UrlOpt := (zipKV (list l "upk") (list l "upv")).map fun kv => [kv]

structure CbView where
  kind : String
  hookState : String
  reqs : List (String × List (String × String))
  dels : List String
  sets : Nat
  deriving DecidableEq, Repr

def modelCb (l : Line) : CbView :=
  let w := Gen.CodeExchangeHandler 0 (mkRP l) (urlOpts l) [] { cookies := parseCookies l "j.", form := parseForm l }
  let cb := w.findSome? fun e => match e with | .callback s _ => some s | _ => none
  let un := w.findSome? fun e => match e with | .unauthorized _ s => some s | _ => none
  let eh := w.findSome? fun e => match e with | .errorHandler _ _ s => some s | _ => none
  let (kind, hs) := match cb, un, eh with
    | some s, _, _ => ("cb", s)
    | none, some s, _ => ("unauth", s)
    | none, none, some s => ("errh", s)
    | none, none, none => ("none", "")
  { kind := kind, hookState := hs,
    reqs := w.filterMap fun e => match e with | .tokenRequest q => some (q.clientID, sortKV q.params) | _ => none,
    dels := w.filterMap fun e => match e with | .setCookie c => if c.MaxAge < 0 then some c.Name else none | _ => none,
    sets := (w.filter fun e => match e with | .setCookie c => decide (0 ≤ c.MaxAge) | _ => false).length }

def observedCb (l : Line) : CbView :=
  { kind := str l "o.kind",
    hookState := if str l "o.kind" == "cb" then str l "o.cbst" else str l "o.hst",
    reqs := (parseTokenReqs l).map fun q => (q.clientID, sortKV q.params),
    dels := list l "o.del", sets := nat l "o.set" }

structure LoginView where
  kind : String
  hookState : String
  endpoint : String
  params : List (String × String)
  cookies : List (String × CookieVal × Int)
  deriving DecidableEq, Repr

def modelLogin (l : Line) : LoginView :=
  -- oracle: the uuid behind the verifier found in the response (`b64url:<uuid symbol>`)
  let rnd := if (str l "v").startsWith "b64url:" then String.ofList ((str l "v").toList.drop 7) else str l "v"
  let w := Gen.AuthURLHandler 0 (str l "st") rnd (mkRP l) (urlOpts l) [] {}
  let rd := w.findSome? fun e => match e with | .redirect u _ => some u | _ => none
  let un := w.findSome? fun e => match e with | .unauthorized _ s => some s | _ => none
  { kind := match rd, un with | some _, _ => "redirect" | none, some _ => "unauth" | none, none => "none",
    hookState := match rd, un with | none, some s => s | _, _ => "",
    endpoint := match rd with | some u => u.endpoint | none => "",
    params := match rd with | some u => sortKV u.params | none => [],
    cookies := w.filterMap fun e => match e with | .setCookie c => some (c.Name, c.Value, c.MaxAge) | _ => none }

def observedLogin (l : Line) : LoginView :=
  { kind := str l "o.kind", hookState := str l "o.hst", endpoint := str l "o.u.ep",
    params := sortKV (zipKV (list l "o.u.k") (list l "o.u.v")),
    cookies := (parseCookies l "o.c.").map fun c => (c.Name, c.Value, c.MaxAge) }

def step (st : MonSt) (l : Line) : MonSt × String :=
  let (st', v) := monStep st l
  let (modelS, agree) :=
    match str l "op" with
    | "cb" => let m := modelCb l; (m.kind ++ "/" ++ toString m.reqs.length, decide (m = observedCb l))
    | "login" => let m := modelLogin l; (m.kind, decide (m = observedLogin l))
    | _ => ("-", false)
  (st', s!"case={str l "case"} class={lineClass l} model={modelS} observed={obsClass l} monitor={showMon v} agree={if agree then 1 else 0}")

end Drv.C17
