import Driver.C17Mon
import OidcModel.Generated.RPHandlers
import OidcModel.Generated.RPCookieNew
import OidcModel.Model.RPConstructGen
import OidcModel.Model.RPConstructC17
open Kv Drv

/-
  C17 model driver: recomputes every observed handler run with the REGENERATED handlers and compares.
-/
namespace Drv.C17

def sortKV (xs : List (String × String)) : List (String × String) := xs.mergeSort fun a b => decide (a.1 ≤ b.1)

/-- one functional option of the cookie handler as written on the line (`chopts`): unsecure | maxage:<n> | samesite:<n> | path:<p> | domain:<d> -/
def chOpt (s : String) : CookieHandlerOpt :=
  match s.splitOn ":" with
  | ["unsecure"] => Gen.WithUnsecure 0
  | ["maxage", n] => Gen.WithMaxAge 0 (n.toInt?.getD 0)
  | ["samesite", n] => Gen.WithSameSite 0 (n.toInt?.getD 0)
  | "path" :: p => Gen.WithPath 0 (":".intercalate p)
  | "domain" :: d => Gen.WithDomain 0 (":".intercalate d)
  | _ => id

/-- the cookie handler as the REGENERATED `NewCookieHandler` builds it from the configured keys and options; the encode oracle
    (can securecookie encode this state / a verifier) is put in afterwards -/
def mkHandler (l : Line) (es ep : Bool) : CookieHandler :=
  let ch := Gen.NewCookieHandler 0 (hexBytes (str l "hk")) (hexBytes (str l "bk")) ((list l "chopts").map chOpt)
  { ch with securecookie := { ch.securecookie with encodable := fun n _ => if n == "state" then es else ep } }

/-- one `rp.Option` of the application as written on the line (`ropts`) -/
def rOpt (s : String) : Option C01.ROptD :=
  match s.splitOn ":" with
  | ["pkce"] => some (.pkce (some 1))
  | ["cookie"] => some (.cookieHandler (some 1))
  | ["authstyle", n] => some (.authStyle (n.toInt?.getD 0))
  | ["unauth"] => some (.unauthorizedHandler (some 1))
  | ["errh"] => some (.errorHandler (some 1))
  | ["jwtok"] => some (.jwtProfile (.ok 1))
  | ["jwtfail"] => some (.jwtProfile (.ok 2))
  | ["discurl"] => some (.customDiscoveryUrl "alt")
  | ["algsdisc"] => some .signingAlgsFromDiscovery
  | ["logger"] => some (.logger none)
  | _ => none

/-- the discovery document of the case, as far as the model's document goes -/
def discDoc (l : Line) : RPCDiscoveryConfiguration :=
  let iss := str l "iss"
  let bits := nat l "d.bits"
  { Issuer := iss, AuthorizationEndpoint := str l "d.auth", TokenEndpoint := str l "d.token", JwksURI := str l "d.jwks",
    IDTokenSigningAlgValuesSupported := list l "d.algs",
    UserinfoEndpoint := if bits % 2 == 1 then iss ++ "/userinfo" else "",
    IntrospectionEndpoint := if bits / 2 % 2 == 1 then iss ++ "/introspect" else "",
    RevocationEndpoint := if bits / 2 % 2 == 1 then iss ++ "/revoke" else "",
    EndSessionEndpoint := if bits / 4 % 2 == 1 then iss ++ "/end_session" else "",
    DeviceAuthorizationEndpoint := if bits / 4 % 2 == 1 then iss ++ "/device" else "" }

/-- the relying party of the case as the REGENERATED constructor builds it from the application's option list (and, for
    `NewRelyingPartyOIDC`, the discovery document of the case) -/
def constructed (l : Line) : Go.R RPCRelyingParty :=
  let opts := ((list l "ropts").filterMap rOpt).map (C01.ROptD.denote 0)
  if str l "ctor" == "oidc" then
    GenC01.NewRelyingPartyOIDC 0 { discover := fun _ _ _ => .ok (discDoc l), jwks := fun _ _ => {} }
      (str l "iss") (str l "cid") "secret" (str l "ruri") (list l "sc") opts
  else
    GenC01.NewRelyingPartyOAuth 0
      { ClientID := str l "cid", ClientSecret := "secret", RedirectURL := str l "ruri", Scopes := list l "sc",
        Endpoint := { AuthURL := "http://op.local/authorize", TokenURL := "" } } opts

def mkRP (l : Line) : RP :=
  let es := if has l "es" then bool l "es" else true
  let ep := if has l "ep" then bool l "ep" else true
  let provfail := bool l "provfail"
  let provider : TokenReq → Go.R Tokens := fun _ => if provfail then .error "refused" else .ok { id := 0 }
  if has l "ctor" then
    -- (round 5) through the regenerated constructor and the regenerated getters
    match constructed l with
    | .ok rpc => C17Construct.view 0 rpc (fun _ => mkHandler l es ep) (fun n => { ok := n == 1 }) provider
    | .error _ => { provider := provider }
  else
  { oauthConfig := { ClientID := str l "cid", ClientSecret := "secret", RedirectURL := str l "ruri", Scopes := list l "sc",
                     Endpoint := { AuthURL := "http://op.local/authorize", TokenURL := "" } },
    cookieHandler := some (mkHandler l es ep),
    pkce := bool l "pkce",
    signer := match nat l "sg" with | 0 => none | 1 => some { ok := true } | _ => some { ok := false },
    provider := provider }

def urlOpts (l : Line) : List UrlOpt := (zipKV (list l "upk") (list l "upv")).map fun kv => [kv]

structure CbView where
  kind : String
  hookState : String
  reqs : List (String × List (String × String))
  dels : List String
  sets : Nat
  deriving DecidableEq, Repr

def modelCb (l : Line) : CbView :=
  let w := Gen.CodeExchangeHandler 0 (mkRP l) (urlOpts l) [] { cookies := parseCookies l "j.", form := parseForm l }
  let cb := w.findSome? fun e => match e with | .callback s _ => some s | _ => none
  let un := w.findSome? fun e => match e with | .unauthorized _ s => some s | _ => none
  let eh := w.findSome? fun e => match e with | .errorHandler _ _ s => some s | _ => none
  let (kind, hs) := match cb, un, eh with
    | some s, _, _ => ("cb", s)
    | none, some s, _ => ("unauth", s)
    | none, none, some s => ("errh", s)
    | none, none, none => ("none", "")
  { kind := kind, hookState := hs,
    reqs := w.filterMap fun e => match e with | .tokenRequest q => some (q.clientID, sortKV q.params) | _ => none,
    dels := w.filterMap fun e => match e with | .setCookie c => if c.MaxAge < 0 then some c.Name else none | _ => none,
    sets := (w.filter fun e => match e with | .setCookie c => decide (0 ≤ c.MaxAge) | _ => false).length }

def observedCb (l : Line) : CbView :=
  { kind := str l "o.kind",
    hookState := if str l "o.kind" == "cb" then str l "o.cbst" else str l "o.hst",
    reqs := (parseTokenReqs l).map fun q => (q.clientID, sortKV q.params),
    dels := list l "o.del", sets := nat l "o.set" }

structure LoginView where
  kind : String
  hookState : String
  endpoint : String
  params : List (String × String)
  cookies : List (String × CookieVal × Int)
  deriving DecidableEq, Repr

def modelLogin (l : Line) : LoginView :=
  -- oracle: the uuid behind the verifier found in the response (`b64url:<uuid symbol>`)
  let rnd := if (str l "v").startsWith "b64url:" then String.ofList ((str l "v").toList.drop 7) else str l "v"
  let w := Gen.AuthURLHandler 0 (str l "st") rnd (mkRP l) (urlOpts l) [] {}
  let rd := w.findSome? fun e => match e with | .redirect u _ => some u | _ => none
  let un := w.findSome? fun e => match e with | .unauthorized _ s => some s | _ => none
  { kind := match rd, un with | some _, _ => "redirect" | none, some _ => "unauth" | none, none => "none",
    hookState := match rd, un with | none, some s => s | _, _ => "",
    endpoint := match rd with | some u => u.endpoint | none => "",
    params := match rd with | some u => sortKV u.params | none => [],
    cookies := w.filterMap fun e => match e with | .setCookie c => some (c.Name, c.Value, c.MaxAge) | _ => none }

def observedLogin (l : Line) : LoginView :=
  { kind := str l "o.kind", hookState := str l "o.hst", endpoint := str l "o.u.ep",
    params := sortKV (zipKV (list l "o.u.k") (list l "o.u.v")),
    cookies := (parseCookies l "o.c.").map fun c => (c.Name, c.Value, c.MaxAge) }

def step (st : MonSt) (l : Line) : MonSt × String :=
  let (st', v) := monStep st l
  let (modelS, agree) :=
    match str l "op" with
    | "cb" => let m := modelCb l; (m.kind ++ "/" ++ toString m.reqs.length, decide (m = observedCb l))
    | "login" => let m := modelLogin l; (m.kind, decide (m = observedLogin l))
    | _ => ("-", false)
  (st', s!"case={str l "case"} class={lineClass l} model={modelS} observed={obsClass l} monitor={showMon v} agree={if agree then 1 else 0}")

end Drv.C17
