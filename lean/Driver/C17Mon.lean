import Driver.Common
import OidcModel.Spec.C17
open Kv Drv

/-
  C17 monitor driver: judges the OBSERVED handler runs (Spec/C17 only; nothing generated is imported).
  Line keys: see harness/cmd/vharness/c17.go.
-/
namespace Drv.C17

structure MonSt where
  mon : C17.MonState := {}
  deriving Inhabited

def hexVal (c : Char) : Nat :=
  if '0' ≤ c ∧ c ≤ '9' then c.toNat - '0'.toNat
  else if 'a' ≤ c ∧ c ≤ 'f' then c.toNat - 'a'.toNat + 10
  else 0

/-- a key on the wire: lower-case hex of the configured bytes (`""` = nil) -/
def hexBytes (s : String) : CookieKey :=
  let rec go : List Char → List Nat
    | a :: b :: rest => (hexVal a * 16 + hexVal b) :: go rest
    | _ => []
  go s.toList

/-- the monitor's configuration is what the APPLICATION configured: the keys handed to `NewCookieHandler`, the constructor's client
    id / redirect URI / scopes, and "PKCE enabled" = `WithPKCE` is in the option list handed to the constructor (`ropts`; lines of
    older replays without it: `pkce`) - never what the relying-party object reports -/
def parseCfg (l : Line) : C17.Cfg :=
  { hashKey := hexBytes (str l "hk"), blockKey := hexBytes (str l "bk"), clientID := str l "cid", redirectURI := str l "ruri",
    scopes := list l "sc", pkce := if has l "ropts" then (list l "ropts").contains "pkce" else bool l "pkce" }

def nth (xs : List String) (i : Nat) : String := xs.getD i ""

/-- cookies written as parallel lists under prefix `p`: n (name) k (m|p) hk bk cn (minted for) v (content) [age] -/
def parseCookies (l : Line) (p : String) : List Http.Cookie :=
  let ns := list l (p ++ "n")
  let ks := list l (p ++ "k")
  let hks := list l (p ++ "hk")
  let bks := list l (p ++ "bk")
  let cns := list l (p ++ "cn")
  let vs := list l (p ++ "v")
  let ages := list l (p ++ "age")
  (List.range ns.length).map fun i =>
    let val : CookieVal :=
      if nth ks i == "m" then .minted (hexBytes (nth hks i)) (hexBytes (nth bks i)) (nth cns i) (nth vs i)
      else .plain (nth vs i)
    { Name := nth ns i, Value := val, MaxAge := (nth ages i).toInt?.getD 0 }

def zipKV (ks vs : List String) : List (String × String) :=
  (List.range ks.length).map fun i => (nth ks i, nth vs i)

def parseForm (l : Line) : List (String × String) := zipKV (list l "f.k") (list l "f.v")

/-- token requests the fake provider recorded: `o.treq` of them, parameters under `o.t<i>.k/v`, client under `o.t<i>.cid` -/
def parseTokenReqs (l : Line) : List TokenReq :=
  (List.range (nat l "o.treq")).map fun i =>
    let p := "o.t" ++ toString i ++ "."
    { clientID := str l (p ++ "cid"), params := zipKV (list l (p ++ "k")) (list l (p ++ "v")) }

def parseCallbackObs (l : Line) : C17.CallbackObs :=
  { tokenRequests := parseTokenReqs l,
    callback := if bool l "o.hascb" then some (str l "o.cbst") else none,
    unauthorized := str l "o.kind" == "unauth",
    errorHandled := str l "o.kind" == "errh" }

def parseLoginObs (l : Line) : C17.LoginObs :=
  { redirect := if str l "o.kind" == "redirect" then
      some { endpoint := str l "o.u.ep", params := zipKV (list l "o.u.k") (list l "o.u.v") } else none,
    setCookies := parseCookies l "o.c." }

/-- one observed line: new monitor state, verdict -/
def monStep (st : MonSt) (l : Line) : MonSt × Option String :=
  let st : MonSt := if bool l "new" then {} else st
  let cfg := parseCfg l
  match str l "op" with
  | "login" =>
    if str l "o.kind" == "panic" then (st, some "panic") else
    let obs := parseLoginObs l
    ({ mon := C17.onLogin cfg st.mon obs }, C17.judgeLogin cfg obs)
  | "cb" =>
    if str l "o.kind" == "panic" then (st, some "panic") else
    let obs := parseCallbackObs l
    let v := C17.judgeCallback cfg (parseCookies l "j.") (parseForm l) obs
    let v := if bool l "browser" then v.orElse fun _ => C17.judgeHistory cfg st.mon (parseForm l) obs else v
    (st, v)
  | _ => (st, some "bad-op")

def obsClass (l : Line) : String :=
  match str l "op" with
  | "cb" => str l "o.kind" ++ "/" ++ toString (nat l "o.treq")
  | _ => str l "o.kind"

def lineClass (l : Line) : String := str l "op" ++ ":" ++ esc (str l "cls") ++ ":" ++ obsClass l

def stepMon (st : MonSt) (l : Line) : MonSt × String :=
  let (st', v) := monStep st l
  (st', s!"case={str l "case"} class={lineClass l} model=- observed={obsClass l} monitor={showMon v} agree=1")

end Drv.C17
