import Driver.C09Mon
import OidcModel.Model.C09Tie
open Kv Drv Codec

/-! C09 driver, model part: the models over the REGENERATED facts (handler skeletons, failure sites) predict the
    outcome class of the case the harness ran. -/
namespace Drv.C09
open _root_.C09

/-- last path component of a handler name, `.funcN` dropped -/
def baseName (s : String) : String :=
  let isFuncN (p : String) : Bool := p.length > 4 && p.toList.take 4 == "func".toList && (p.toList.drop 4).all Char.isDigit
  let parts := (s.splitOn ".").filter fun p => !isFuncN p
  (parts.getLast?).getD s

/-- the identifiers occurring in the text of a call (`s.withClient(s.codeExchangeHandler)` ↦ s, withClient, …) -/
def identsOf (s : String) : List String :=
  let cs := s.toList.map fun c => if c.isAlphanum || c == '_' then c else ' '
  ((String.ofList cs).splitOn " ").filter (· != "")

def calleesOf : HSk → List String
  | .done => []
  | .write n _ k => n :: calleesOf k
  | .body _ k => calleesOf k
  | .logic _ k => calleesOf k
  | .ret _ => []
  | .ite a b k => calleesOf a ++ calleesOf b ++ calleesOf k
  | .tryW n h k => n :: (calleesOf h ++ calleesOf k)
  | .loop b k => calleesOf b ++ calleesOf k

/-- the handlers reachable from `entry` through response-writing calls (dynamic dispatch is not followed) -/
def reach (hs : List Handler) (fuel : Nat) (todo seen : List String) : List String :=
  match fuel, todo with
  | 0, _ => seen
  | _, [] => seen
  | fuel + 1, n :: rest =>
    if seen.contains n then reach hs fuel rest seen else
    let next := (hs.filter (·.name == n)).flatMap fun h =>
      (calleesOf h.sk).flatMap fun c => (hs.filter fun h' => (identsOf c).contains (baseName h'.name)).map (·.name)
    reach hs fuel (rest ++ next) (n :: seen)

def shapeOK (hs : List Handler) (entry : String) : Bool :=
  (reach hs 400 [entry] []).all fun n =>
    (hs.filter (·.name == n)).all fun h => wf h.sk || auditedWriters.contains h.name

/-- evaluated once: entry ↦ do all handlers reachable from it have the shape -/
def shapeTable : List (String × Bool) := GenC09.handlers.map fun h => (h.name, shapeOK GenC09.handlers h.name)

def ofAtom : JAtom → JVal
  | .null => .null | .bool b => .bool b | .int n => .int n | .float t r => .float t r | .str s => .str s | .obj => .obj []
def ofJIn : JIn → JVal
  | .atom a => ofAtom a
  | .arr l => .arr (l.map ofAtom)

/-- the payload / body as the models see it: its JSON type, and the `aud` member of an object -/
def jvalOf (l : Line) : Option JVal :=
  if !bool l "json" then none else
  match str l "ptype" with
  | "null" => some .null
  | "bool" => some (.bool true)
  | "num" => some (.int 0)
  | "str" => some (.str "")
  | "arr" => some (.arr [])
  | "obj" => some (.obj (if bool l "hasAud" then [("aud", ofJIn (Drv.C12.parseDoc l))] else []))
  | _ => none

def langOracle (l : Line) : String → Lang := fun _ =>
  match str l "lang" with
  | "value" => .valueErr
  | "syntax" => .syntaxErr
  | _ => .ok

/-- `lens=param:n,param:n`: the lengths the slice / index expressions of the function under test see -/
def lensOf (l : Line) : List (String × Nat) :=
  ((str l "lens").splitOn ",").filterMap fun kv =>
    match kv.splitOn ":" with
    | [p, n] => n.toNat?.map fun k => (p, k)
    | _ => none

def showCls : Cls → String | .ok => "ok" | .err => "err" | .panic => "panic" | .nilnil => "nilnil"

/-- the functions reachable from `todo` through the regenerated static call edges -/
def callReach (fuel : Nat) (todo seen : List String) : List String :=
  match fuel, todo with
  | 0, _ => seen
  | _, [] => seen
  | fuel + 1, n :: rest =>
    if seen.contains n then callReach fuel rest seen
    else callReach fuel (rest ++ (GenC09.boundCalls.filter (·.1 == n)).map (·.2)) (n :: seen)

/-- a slice / index expression that the entailment check does not discharge (audited ones aside) or whose loop-carried
    index lacks a bound, in a function reachable from `fn` -/
def unsafeSiteFrom (fn : String) : Bool :=
  let fs := callReach 4000 [fn] []
  GenC09.boundSites.any fun s => fs.contains s.fn && !(auditedBoundSites.contains (s.fn, s.expr)) && (!s.safe || !s.loopGuarded)

/-- the functions reachable from `todo` through the regenerated call edges towards unguarded type assertions -/
def assertReach (fuel : Nat) (todo seen : List String) : List String :=
  match fuel, todo with
  | 0, _ => seen
  | _, [] => seen
  | fuel + 1, n :: rest =>
    if seen.contains n then assertReach fuel rest seen
    else assertReach fuel (rest ++ (GenC09.assertCalls.filter (·.1 == n)).map (·.2)) (n :: seen)

/-- a single-value type assertion no guard dominates (audited ones aside) in a function reachable from `fn`: a token
    whose JOSE header / a document whose member has another JSON type than the code expects may panic there -/
def unsafeAssertFrom (fn : String) : Bool :=
  let fs := assertReach 4000 [fn] []
  GenC09.assertSites.any fun s => fs.contains s.fn && !s.safe && !(auditedAsserts.contains (s.fn, s.expr))

/-- evaluated once per verifier name -/
def assertTable : List (String × Bool) :=
  ["rp.VerifyIDToken", "op.VerifyIDTokenHint", "op.VerifyAccessToken", "op.VerifyJWTAssertion", "op.ParseRequestObject", "oidc.CheckSignature"].map
    fun fn => (fn, unsafeAssertFrom fn)

def assertMay (fn : String) : Bool := match assertTable.find? (·.1 == fn) with | some p => p.2 | none => unsafeAssertFrom fn

/-- every client-side helper reads the provider's answer through `httphelper.HttpRequest` -/
def httpRequestMayPanic : Bool := unsafeSiteFrom "http.HttpRequest"

def modelLine (l : Line) : String × Bool :=
  let F := genFacts
  let obs := str l "obs"
  match str l "kind" with
  | "handler" =>
    let ent := str l "entry"
    if ent == "" then ("unrouted", true) else
    -- may the function that calls the hint verifier at this endpoint go on with nil claims (result contract)?
    let hintPanic := match F.callers.find? (·.fn == str l "tcaller") with
      | some c => callerMayPanic F c (str l "tcheck")
      | none => false
    -- F-C09f: `client` of op.Authorize stays nil behind an AuthorizeValidator
    let nilClient := str l "router" == "custom-authorize" && GenC09.closureAssigned.contains ("op.Authorize", "client")
    -- an opaque token that decodes to `tbytes` bytes reaches the slice expressions of crypto.DecryptBytesAES
    let unsafeAt (fn base : String) : Bool := GenC09.boundSites.any fun s => s.fn == fn && s.base == base && !s.safe
    let shortCipher := has l "tbytes" && (fnPanicsAt GenC09.boundSites "crypto.DecryptBytesAES" "cipherText" (nat l "tbytes") || unsafeAt "crypto.DecryptBytesAES" "cipherText")
    -- the Authorization header of `hlen` bytes reaches the index / slice expressions of op.getAccessToken
    let shortHeader := has l "hlen" && (fnPanicsAt GenC09.boundSites "op.getAccessToken" "authHeader" (nat l "hlen") || unsafeAt "op.getAccessToken" "authHeader")
    -- a code_verifier for an auth request without a challenge: the second router hands VerifyCodeChallenge a nil challenge
    let nilChallenge := bool l "nilch" && !GenC09.nilGuardedParams.contains ("oidc.VerifyCodeChallenge", "c")
    -- a token with an arbitrary JOSE header reaches the verifier `hfn`: an unguarded type assertion on the way?
    let hdrPanic := has l "hplace" && assertMay (str l "hfn")
    let mayPanic := hintPanic || nilClient || shortCipher || shortHeader || nilChallenge || hdrPanic
    if ((shapeTable.find? (·.1 == ent)).map (·.2)).getD true then
      if mayPanic then ("single-response/may-panic", (monitorLine l).isNone || bool l "panic")
      else ("single-response", (monitorLine l).isNone)
    else ("shape-broken", true)     -- the regenerated skeleton admits a bad path: whatever is observed is consistent
  | "dec" =>
    if !bool l "json" then
      if str l "mode" == "json" then ("err", obs == "err") else ("-", true)
    else
      let j := Drv.C12.parseDoc l
      let m : Cls := match str l "type" with
        | "aud" => outCls (decodeAudience F j)
        | "time" => outCls (Codec.decodeTime (Drv.C12.rfcOracle l) j)
        | "bool" => outCls (Codec.decodeBool j)
        | "sda" => outCls (Codec.decodeSpaceDelimited j)
        | "locale" => outCls (decodeLocale (langOracle l) j)
        | "locales" => outCls (decodeLocales j)
        | _ => .err
      (showCls m, showCls m == (if obs == "val" then "ok" else obs))
  | "claims" =>
    let ty := str l "type"
    let ty := if ty.toList.take 7 == "nested.".toList then String.ofList (ty.toList.drop 7) else ty
    let p : Bool := match jvalOf l with
      | some .null => match nonTokenSite F ("oidc." ++ ty ++ ".UnmarshalJSON") with
        | some s => !s.nilSafe
        | none => false
      | some (.obj m) => membersPanic F m
      | _ => false
    (if p then "panic" else "no-panic", p == (obs == "panic"))
  | "verify" =>
    let t : Tok := { parts := nat l "parts", b64ok := bool l "b64", payload := jvalOf l }
    let p := verifyPanics F (str l "fn") t
    if has l "hname" && assertMay (str l "fn") then ((if p then "panic" else "no-panic") ++ "/may-panic", p == (obs == "panic") || obs == "panic") else
    (if p then "panic" else "no-panic", p == (obs == "panic"))
  | "hint" =>
    match F.callers.find? (·.fn == str l "caller") with
    | some c =>
      let p := callerMayPanic F c (str l "tcheck")
      (if p then "may-panic" else "no-panic", p || obs != "panic")
    | none => ("no-tolerant-caller", obs != "panic")
  | "bytes" =>
    -- the regenerated bound-site facts of `fn`, evaluated at the lengths the call presents
    let p := (lensOf l).any fun (param, n) =>
      if param == "*" then GenC09.boundSites.any fun s => s.fn == str l "fn" && sitePanics s (constEnv s.base n)
      else fnPanicsAt GenC09.boundSites (str l "fn") param n
    if str l "via" == str l "fn" then (if p then "panic" else "no-panic", p == (obs == "panic"))
    else (if p then "may-panic" else "no-panic", p || obs != "panic")
  | "rph" =>
    -- the relying party's redirect handlers: the regenerated field contract (producer returns, consumers, call-throughs)
    let p := handlerMayPanic GenC09.fieldReturns GenC09.callThroughs GenC09.fieldConsumers (str l "handler")
    (if p then "may-panic" else "no-panic", p || obs != "panic")
  | "client" =>
    let fn := str l "fn"
    -- an unguarded slice / index expression on the way of the provider's answer (regenerated bound sites + call edges)
    let may := httpRequestMayPanic || (fn != "" && unsafeSiteFrom fn)
    -- a body that ends before its Content-Length never reaches the decoders
    if fn == "" || (has l "fault" && str l "fault" != "none") then
      (if may then "may-panic" else "no-panic", may || obs != "panic") else
    let m := helperOutcome F fn (nat l "status") (jvalOf l)
    let agree := match m with
      | .panic => obs == "panic"
      | .nilnil => obs == "nilnil"
      | .err => obs == "err"
      | .ok => obs == "ok" || obs == "err"
    if may then (showCls m ++ "/may-panic", agree || obs == "panic") else
    (showCls m, agree)
  | _ => ("?", false)

def step (l : Line) : String :=
  let (m, agree) := modelLine l
  s!"case={str l "case"} class={classOf l} model={m} observed={obsOf l} monitor={showMon (monitorLine l)} agree={if agree then 1 else 0}"

end Drv.C09
