import Driver.C06Mon
import OidcModel.Generated.IssueC06
import OidcModel.Generated.IssueC06Key
import OidcModel.Generated.IssueC06O
open Kv Drv

/-
  C06 full driver: besides the monitor (Driver/C06Mon.lean) the REGENERATED issuance functions (GenC06.CreateIDToken,
  GenC06.CreateJWT) are run on the case's request, client registration (the two restriction functions as configured) and
  storage capabilities, against a storage that RECORDS which scope list it is asked about and a key whose "signature" spells
  out the two claim hashes symbolically.  The prediction is compared with what the reference storage recorded during the real
  token-issuing request and with the real hashes as the harness recognised them.
-/
namespace Drv.C06

def dropFn (drop : List String) : List String → List String := fun l => l.filter (fun s => !drop.contains s)

def joinPlus (l : List String) : String := "+".intercalate l

/-- a key whose "signature" spells out what the storage recorded and the two claim hashes -/
def recKey (alg : String) : IssSigningKey :=
  { SignatureAlgorithm := alg,
    signID := fun c =>
      let get := fun k => ((c.UserInfo.Claims.find? (·.1 == k)).map (·.2)).getD "-"
      .ok ("ui=" ++ get "ui" ++ ";uireq=" ++ get "uireq" ++ ";at_hash=" ++ c.AccessTokenHash ++ ";c_hash=" ++ c.CodeHash),
    signAT := fun c => .ok (((c.Claims.find? (·.1 == "priv")).map (·.2)).getD "-") }

/-- records the scope list in the userinfo / private claims -/
def recStorage (l : Line) (alg : String) : IssStorage :=
  { is_TokenExchangeStorage := true,
    is_CanSetUserinfoFromRequest := bool l "cap.uireq",
    SetUserinfoFromScopes := fun u sub _ sc => .ok { u with Subject := sub, Claims := u.Claims ++ [("ui", joinPlus sc)] },
    SetUserinfoFromRequest := fun u _ sc => .ok { u with Claims := u.Claims ++ [("uireq", joinPlus sc)] },
    SetUserinfoFromTokenExchangeRequest := fun u r => .ok { u with Subject := r.GetSubject, Claims := [("te", "")] },
    GetPrivateClaimsFromScopes := fun _ _ sc => .ok [("priv", joinPlus sc)],
    SigningKey := .ok (recKey alg) }

/-- (round 4) the storage as a state-passing ORACLE (Model/IssueC06O.lean): it records like `recStorage`, and its signing key follows
    the case's schedule - when the key was rotated INSIDE the token-issuing request, every `SigningKey` call of the request that
    was answered before the rotation (`h.sigbefore` of them) returns the previous key, the later ones the new key.  The key's
    "signature" ends in `#prev` / `#cur`: which of the two the regenerated function signed with. -/
def tagKey (k : IssSigningKey) (tag : String) : IssSigningKey :=
  { k with signID := fun c => (k.signID c).map (· ++ "#" ++ tag), signAT := fun c => (k.signAT c).map (· ++ "#" ++ tag) }

def recOracle (l : Line) (sigsSoFar : Nat) : IssOStorage :=
  let rotated := has l "k.prev"
  let before := (int l "h.sigbefore").toNat
  { log := List.replicate sigsSoFar "SigningKey",
    is_TokenExchangeStorage := true,
    is_CanSetUserinfoFromRequest := bool l "cap.uireq",
    setUserinfoFromScopesAt := fun _ u sub _ sc => .ok { u with Subject := sub, Claims := u.Claims ++ [("ui", joinPlus sc)] },
    setUserinfoFromRequestAt := fun _ u _ sc => .ok { u with Claims := u.Claims ++ [("uireq", joinPlus sc)] },
    setUserinfoFromTokenExchangeRequestAt := fun _ u r => .ok { u with Subject := r.GetSubject, Claims := [("te", "")] },
    getPrivateClaimsFromScopesAt := fun _ _ _ sc => .ok [("priv", joinPlus sc)],
    signingKeyAt := fun log =>
      if rotated && decide (log.count "SigningKey" < before) then .ok (tagKey (recKey (str l "k.prevalg")) "prev")
      else .ok (tagKey (recKey (str l "k.alg")) "cur") }

/-- splits `text#tag` -/
def untag (s : String) : String × String :=
  match s.splitOn "#" with
  | [a, b] => (a, b)
  | _ => (s, "cur")

def modelLine (l : Line) : String × String × String × String :=
  let flow := str l "flow"
  let client : IssClient :=
    { GetID := str l "r.client", ClockSkew := int l "r.skew" * Go.second, IDTokenLifetime := int l "r.lifetime" * Go.second,
      IDTokenUserinfoClaimsAssertion := bool l "r.assert",
      RestrictAdditionalIdTokenScopes := dropFn (list l "r.iddrop"), RestrictAdditionalAccessTokenScopes := dropFn (list l "r.atdrop") }
  let request : IssRequest :=
    { GetSubject := str l "r.sub", GetClientID := str l "r.client", GetScopes := list l "r.scopes",
      is_AuthRequest := flow == "code" || flow == "implicit" || flow == "implicit-idonly", GetNonce := str l "r.nonce",
      is_TokenExchangeRequest := flow == "exchange-id" }
  -- the JWT access token is made first (its SigningKey call is the first of the request), then the ID token
  let (atPart, atTag) :=
    if bool l "o.jwtat" && flow != "jwt-bearer" then
      match GenC06O.CreateJWT 2000000000000000000 (str l "r.iss") request 2000000300000000000 "at" client (recOracle l 0) with
      | .ok s => untag s
      | .error e => ("error:" ++ e, "cur")
    else ("-", if has l "k.prev" && int l "h.sigbefore" ≥ 1 then "prev" else "cur")
  let (idPart, idTag) :=
    if bool l "o.idtoken" then
      match GenC06O.CreateIDToken 2000000000000000000 (str l "r.iss") request client.IDTokenLifetime (if bool l "r.withat" then "AT" else "")
          (if bool l "r.code" then "CODE" else "") (recOracle l (if bool l "o.jwtat" then 1 else 0)) client with
      | .ok s => untag s
      | .error e => ("error:" ++ e, "cur")
    else ("-", "cur")
  let obsID :=
    if bool l "o.idtoken" then
      "ui=" ++ str l "j.ui" ++ ";uireq=" ++ str l "j.uireq" ++ ";at_hash=" ++ str l "o.athashsym" ++ ";c_hash=" ++ str l "o.chashsym"
    else "-"
  let obsAT := if bool l "o.jwtat" && flow != "jwt-bearer" then str l "j.priv" else "-"
  (idPart ++ "|priv=" ++ atPart, obsID ++ "|priv=" ++ obsAT, idTag, atTag)

/-- the REGENERATED signing path (GenC06K.SignerFromKey, GenC06K.Sign) on the signing key the reference storage returns at this
    issuance: which key pair signs, and which `alg` / `kid` the header names - as `alg/kid/keyNo` -/
def signerLine (l : Line) (tag : String := "cur") : String :=
  let prev := tag == "prev"
  let alg := str l (if prev then "k.prevalg" else "k.alg")
  let kty : KeyType := if alg == "EdDSA" then .okp else if Go.hasPrefix alg "ES" then .ec else .rsa
  let key : IssKSigningKey := { SignatureAlgorithm := alg, Key := { keyNo := (int l (if prev then "k.prev" else "k.cur")).toNat, kty := kty },
                                ID := str l (if prev then "k.prevkid" else "k.kid") }
  match GenC06K.SignerFromKey 0 key with
  | .error e => "error:" ++ e
  | .ok signer =>
    match GenC06K.Sign 0 { bytesOf := fun _ => 0 } {} signer with
    | .ok { jws := some { Signatures := [sg], .. }, .. } => s!"{sg.Header.Algorithm}/{sg.Header.KeyID}/{(sg.signer.map toString).getD "-"}"
    | _ => "error:sign"

def stepModel (l : Line) : String :=
  if str l "obs" != "tokens" then step l else
  let (m, o, idTag, atTag) := modelLine l
  -- every issued JWT is signed as the regenerated signing path signs with the key the regenerated issuance function FETCHED
  -- (the current key; after a rotation inside the request the key of the moment of that token's one fetch)
  let (m, o) :=
    if has l "k.cur" then
      (m ++ (if bool l "o.idtoken" then "|idsig=" ++ signerLine l idTag else "") ++ (if bool l "o.jwtat" then "|atsig=" ++ signerLine l atTag else ""),
       o ++ (if bool l "o.idtoken" then s!"|idsig={str l "o.idalg"}/{str l "o.idkid"}/{int l "o.idsigner"}" else "")
         ++ (if bool l "o.jwtat" then s!"|atsig={str l "o.atalg"}/{str l "o.atkid"}/{int l "o.atsigner"}" else ""))
    else (m, o)
  s!"case={str l "case"} class={classOf l} model={esc m} observed={esc o} monitor={showMon (monitorLine l)} agree={if m == o then 1 else 0}"

end Drv.C06
