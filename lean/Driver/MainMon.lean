import Driver.Loop
import Driver.C01Mon
import Driver.C02Mon
import Driver.C12Mon
import Driver.FlowMon
import Driver.C11Mon
open Kv

structure MState where
  c04 : Drv.Flow.MonSt := {}
  c07 : Drv.Flow.MonSt := {}
  deriving Inhabited

/-- monitor-only driver: imports nothing generated, so it builds whatever the source looks like -/
def dispatchMon (st : MState) (prop : String) (l : Line) : MState × String :=
  match prop with
  | "C01" => (st, Drv.C01.stepMon l)
  | "C02" => (st, Drv.C02.stepMon l)
  | "C12" => (st, Drv.C12.step l)
  | "C11" => (st, Drv.C11.stepMon l)
  | "C04" => let (s, r) := Drv.Flow.stepMon "C04" st.c04 l; ({ st with c04 := s }, r)
  | "C07" => let (s, r) := Drv.Flow.stepMon "C07" st.c07 l; ({ st with c07 := s }, r)
  | _ => (st, "bad-op")

def main : IO Unit := driverMain dispatchMon {}
