import Driver.Loop
import Driver.C01Mon
import Driver.C02Mon
import Driver.C12Mon
import Driver.FlowMon
import Driver.C14Mon
import Driver.C05Mon
import Driver.C08Mon
import Driver.C10Mon
import Driver.C15Mon
import Driver.C06Mon
import Driver.C17Mon
import Driver.C03Mon
import Driver.C18Mon
import Driver.C20Mon
import Driver.C19Mon
import Driver.C16Mon
import Driver.C11Mon
import Driver.C09Mon
import Driver.C13Mon
open Kv

structure MState where
  c04 : Drv.Flow.MonSt := {}
  c07 : Drv.Flow.MonSt := {}
  c08 : C08.MonState := {}
  c17 : Drv.C17.MonSt := {}
  c03 : Drv.C03.MonSt := {}
  c16 : C16.MonState := {}
  deriving Inhabited

/-- monitor-only driver: imports nothing generated, so it builds whatever the source looks like -/
def dispatchMon (st : MState) (prop : String) (l : Line) : MState × String :=
  match prop with
  | "C01" => (st, Drv.C01.stepMon l)
  | "C02" => (st, Drv.C02.stepMon l)
  | "C12" => (st, Drv.C12.step l)
  | "C20" => (st, Drv.C20.stepMon l)
  | "C11" => (st, Drv.C11.stepMon l)
  | "C04" => let (s, r) := Drv.Flow.stepMon "C04" st.c04 l; ({ st with c04 := s }, r)
  | "C07" => let (s, r) := Drv.Flow.stepMon "C07" st.c07 l; ({ st with c07 := s }, r)
  | "C14" => (st, Drv.C14.stepMon l)
  | "C05" => (st, Drv.C05.step l)
  | "C08" => let (s, r) := Drv.C08.stepMon st.c08 l; ({ st with c08 := s }, r)
  | "C10" => (st, Drv.C10.step l)
  | "C15" => (st, Drv.C15.stepMon l)
  | "C06" => (st, Drv.C06.step l)
  | "C17" => let (s, r) := Drv.C17.stepMon st.c17 l; ({ st with c17 := s }, r)
  | "C03" => let (s, r) := Drv.C03.stepMon st.c03 l; ({ st with c03 := s }, r)
  | "C18" => (st, Drv.C18.stepMon l)
  | "C19" => (st, Drv.C19.stepMon l)
  | "C16" => let (s, r) := Drv.C16.stepMon st.c16 l; ({ st with c16 := s }, r)
  | "C09" => (st, Drv.C09.stepMon l)
  | "C13" => (st, Drv.C13.stepMon l)
  | _ => (st, "bad-op")

def main : IO Unit := driverMain dispatchMon {}
