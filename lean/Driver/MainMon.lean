import Driver.Loop
import Driver.C01Mon
import Driver.C02Mon
import Driver.C12Mon
open Kv

/-- monitor-only driver: imports nothing generated, so it builds whatever the source looks like -/
def dispatchMon (prop : String) (l : Line) : String :=
  match prop with
  | "C01" => Drv.C01.stepMon l
  | "C02" => Drv.C02.stepMon l
  | "C12" => Drv.C12.step l
  | _ => "bad-op"

def main : IO Unit := driverMain dispatchMon
