import Driver.C05Mon
import OidcModel.Spec.C15
open Kv Drv

namespace Drv.C15

def presentedOf (l : Line) : _root_.C15.Presented :=
  { subjectType := str l "s.type", subjectLive := bool l "s.live", subjectSubject := str l "s.sub",
    actorGiven := str l "a.kind" != "none", actorType := str l "a.type", actorLive := bool l "a.live",
    requestedType := str l "req.type", scopes := list l "scopes", storageVeto := bool l "veto" }

def issuedOf (l : Line) : Option _root_.C15.Issued :=
  if str l "obs" == "ok" then
    some { issuedTokenType := str l "o.issued", accessToken := str l "o.at", accessLive := bool l "o.atlive",
           refreshToken := bool l "o.rt", refreshLive := bool l "o.rtlive", subject := str l "o.sub", scopes := list l "o.scopes" }
  else none

def monitorLine (l : Line) : Option String :=
  if str l "obs" == "panic" then some "panic" else
  let cfg := Drv.C05.cfgOf l
  let cred : _root_.C04.Presented := { clientID := str l "cid", secret := str l "secret" }
  _root_.C15.judge cfg (int l "now0") cred (presentedOf l) (issuedOf l)

def cls (l : Line) : String :=
  s!"{str l "s.kind"}:{(str l "s.type").replace "urn:ietf:params:oauth:token-type:" ""}:{(str l "req.type").replace "urn:ietf:params:oauth:token-type:" ""}:{str l "a.kind"}:{if str l "obs" == "ok" then "ok" else str l "o.err"}"

def stepMon (l : Line) : String :=
  s!"case={str l "case"} class={cls l} model=- observed={if str l "obs" == "ok" then "ok" else "err:" ++ str l "o.err"} monitor={showMon (monitorLine l)} agree=1"

end Drv.C15
