import Driver.C05Mon
import OidcModel.Spec.C15
open Kv Drv

namespace Drv.C15

def presentedOf (l : Line) : _root_.C15.Presented :=
  { subjectType := str l "s.type", subjectLive := bool l "s.live", subjectSubject := str l "s.sub",
    actorGiven := str l "a.kind" != "none", actorType := str l "a.type", actorLive := bool l "a.live", actorSubject := str l "a.sub",
    requestedType := str l "req.type", scopes := list l "scopes", audience := list l "aud", storageVeto := bool l "veto",
    actPolicy := if has l "actpol" then str l "actpol" else "flat" }

def issuedOf (l : Line) : Option _root_.C15.Issued :=
  if str l "obs" == "ok" then
    some { issuedTokenType := str l "o.issued", accessToken := str l "o.at", accessLive := bool l "o.atlive",
           refreshToken := bool l "o.rt", refreshLive := bool l "o.rtlive", subject := str l "o.sub", scopes := list l "o.scopes",
           audience := list l "o.aud", policyAsked := bool l "o.seen", exchangeSubject := str l "o.xsub", actor := str l "o.actor",
           selfContained := str l "o.form" == "jwt" || str l "o.form" == "id", tokenSubject := str l "o.jsub", tokenActor := str l "o.jact",
           tokenAct := str l "o.jactv", policyActAnswered := bool l "o.pasked", policyAct := str l "o.pact" }
  else none

def monitorLine (l : Line) : Option String :=
  if str l "obs" == "panic" then some "panic" else
  let cfg := Drv.C05.cfgOf l
  let cred : _root_.C04.Presented :=
    { clientID := str l "cid", secret := str l "secret", assertion := if str l "auth" == "assertion" then some (parseToken l) else none }
  -- a client assertion is judged at both ends of the call (its validity could flip in between)
  let v0 := _root_.C15.judge cfg (int l "now0") cred (presentedOf l) (issuedOf l)
  let v1 := _root_.C15.judge cfg (int l "now1") cred (presentedOf l) (issuedOf l)
  if v0.isSome && v1.isSome then v0 else none

def short (s : String) : String := if s == "" then "-" else s.replace "urn:ietf:params:oauth:token-type:" ""

def cls (l : Line) : String :=
  s!"{str l "s.kind"}:{short (str l "s.type")}:{short (str l "req.type")}:{str l "a.kind"}:{if str l "obs" == "ok" then "ok" else str l "o.err"}"

/-- what was observed: outcome, and for a success the declared type, whose tokens they are, on whose behalf, refresh token or not -/
def showObs (l : Line) : String :=
  if str l "obs" == "ok" then
    let tok := match str l "o.form" with
      | "jwt" => s!"jwt({str l "o.jsub"}|{str l "o.jactv"}|{str l "o.src"})"
      | "id" => s!"id({str l "o.jsub"}|{str l "o.jactv"}|{str l "o.src"})"
      | "" => "-"
      | f => f
    s!"ok:{short (str l "o.issued")}:sub={str l "o.sub"}:act={str l "o.actor"}:rt={if bool l "o.rt" then 1 else 0}:tok={tok}"
  else if str l "obs" == "panic" then "panic" else "err:" ++ str l "o.err"

def stepMon (l : Line) : String :=
  s!"case={str l "case"} class={cls l} model=- observed={showObs l} monitor={showMon (monitorLine l)} agree=1"

end Drv.C15
