import OidcModel.Proofs.C01
import OidcModel.Proofs.C02
import OidcModel.Proofs.C12
