import OidcModel.Proofs.C01
