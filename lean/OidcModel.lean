import OidcModel.Proofs.C01
import OidcModel.Proofs.C02
import OidcModel.Proofs.C04
import OidcModel.Proofs.C07
import OidcModel.Proofs.C12
import OidcModel.Proofs.C11
