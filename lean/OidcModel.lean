import OidcModel.Go
import OidcModel.Model.Token
import OidcModel.Model.KeySet
import OidcModel.Generated.RPVerifier
